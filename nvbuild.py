#!/usr/bin/env python3
"""Incremental sanitized out-of-tree build of the repository under test and of
the /verif harness binaries.

  nvbuild.py [--repo DIR] [--fuzz] [targets...]

Everything is rebuilt from the *current working tree* of the repository
(default /repo, override with NV_REPO or --repo).  Objects are keyed by a hash
of (source bytes, all header bytes, flags), so an edited source or header is
always recompiled and an untouched one never is.  Nothing is written into the
repository.
"""
import hashlib, os, subprocess, sys, fcntl, time, shutil
from concurrent.futures import ThreadPoolExecutor

VERIF = os.path.dirname(os.path.abspath(__file__))
LIB_DIRS = ["asm", "common", "core", "disasm", "fileio", "simulate", "table"]
GUARD = "NAKEN_ASM_VERIF"
SAN = "-fsanitize=address,bounds,integer-divide-by-zero,null,return,unreachable -fno-sanitize-recover=all"
BASE = "-std=gnu++17 -g -O1 -fno-omit-frame-pointer -D%s -Wno-everything" % GUARD
CXX = "clang++"


def repo_dir():
    return os.path.abspath(os.environ.get("NV_REPO", "/repo"))


def build_dir(repo=None):
    repo = repo or repo_dir()
    if repo == "/repo":
        tag = "repo"
    else:
        tag = "alt-" + hashlib.sha1(repo.encode()).hexdigest()[:10]
    return os.path.join(VERIF, "build", tag)


def sha(*parts):
    h = hashlib.sha1()
    for p in parts:
        h.update(p if isinstance(p, bytes) else p.encode())
        h.update(b"\0")
    return h.hexdigest()


def read(p):
    with open(p, "rb") as f:
        return f.read()


def headers_hash(repo):
    h = hashlib.sha1()
    for d in LIB_DIRS + ["main"]:
        full = os.path.join(repo, d)
        if not os.path.isdir(full):
            continue
        for fn in sorted(os.listdir(full)):
            if fn.endswith(".h"):
                h.update(fn.encode())
                h.update(read(os.path.join(full, fn)))
    hd = os.path.join(VERIF, "harness")
    for fn in sorted(os.listdir(hd)):
        if fn.endswith(".h"):
            h.update(fn.encode())
            h.update(read(os.path.join(hd, fn)))
    return h.hexdigest()


def run(cmd):
    p = subprocess.run(cmd, shell=True, stdout=subprocess.PIPE, stderr=subprocess.STDOUT)
    if p.returncode != 0:
        sys.stderr.write("BUILD FAILED: %s\n%s\n" % (cmd, p.stdout.decode(errors="replace")))
        raise SystemExit(3)


def compile_objs(jobs):
    """jobs: list of (src, obj, flags, key).  Recompile when stamp differs."""
    todo = []
    for src, obj, flags, key in jobs:
        stamp = obj + ".stamp"
        try:
            old = read(stamp).decode()
        except OSError:
            old = ""
        if old != key or not os.path.exists(obj):
            todo.append((src, obj, flags, key))
    def one(j):
        src, obj, flags, key = j
        os.makedirs(os.path.dirname(obj), exist_ok=True)
        run("%s %s -c %s -o %s" % (CXX, flags, src, obj))
        with open(obj + ".stamp", "w") as f:
            f.write(key)
    if todo:
        with ThreadPoolExecutor(max_workers=16) as ex:
            list(ex.map(one, todo))
    return len(todo)


def lib_sources(repo):
    out = []
    for d in LIB_DIRS:
        full = os.path.join(repo, d)
        for fn in sorted(os.listdir(full)):
            if fn.endswith(".cpp"):
                out.append(os.path.join(d, fn))
    return out


HARNESS_BINS = {
    # name: (sources in /verif/harness, extra link flags, needs fuzz lib)
    "nvserve": (["nvserve.cpp", "nv_api.cpp", "nv_sim.cpp"], "-Wl,--wrap=exit", False),
    "nvx": (["nvx.cpp", "nv_api.cpp", "ref_msp430.cpp", "ref_rv32i.cpp"], "-Wl,--wrap=exit -lrapidcheck", False),
    "fuzz_asm": (["fuzz_asm.cpp", "nv_api.cpp"], "-Wl,--wrap=exit -fsanitize=fuzzer", True),
    "fuzz_util_file": (["fuzz_util_file.cpp", "nv_api.cpp"], "-Wl,--wrap=exit -fsanitize=fuzzer", True),
    "fuzz_util_cmd": (["fuzz_util_cmd.cpp", "nv_api.cpp"], "-Wl,--wrap=exit -fsanitize=fuzzer", True),
}


def build(targets=None, repo=None, quiet=True):
    repo = repo or repo_dir()
    bd = build_dir(repo)
    os.makedirs(bd, exist_ok=True)
    lock = open(os.path.join(bd, ".lock"), "w")
    fcntl.flock(lock, fcntl.LOCK_EX)
    t0 = time.time()
    try:
        hh = headers_hash(repo)
        want = set(targets or ["naken_asm_san", "naken_util_san", "nvserve"])
        need_fuzz = any(HARNESS_BINS.get(t, (0, 0, False))[2] for t in want)
        variants = [("san", "")]
        if need_fuzz:
            variants.append(("fuzz", " -fsanitize=fuzzer-no-link"))
        n = 0
        for vname, vflag in variants:
            flags = "%s %s%s -I%s -I%s/harness" % (BASE, SAN, vflag, repo, VERIF)
            jobs = []
            for rel in lib_sources(repo):
                src = os.path.join(repo, rel)
                obj = os.path.join(bd, vname, rel[:-4] + ".o")
                jobs.append((src, obj, flags, sha(read(src), hh, flags)))
            # main programs: standalone and as callable functions
            for prog in ("naken_asm", "naken_util"):
                src = os.path.join(repo, "main", prog + ".cpp")
                # NOTE: no -DREADLINE -> scripted stdin, EOF terminates
                obj = os.path.join(bd, vname, "main", prog + "_fn.o")
                f2 = flags + " -Dmain=%s_main" % prog
                jobs.append((src, obj, f2, sha(read(src), hh, f2)))
                if vname == "san":
                    obj = os.path.join(bd, vname, "main", prog + ".o")
                    jobs.append((src, obj, flags, sha(read(src), hh, flags)))
            n += compile_objs(jobs)
            lib = os.path.join(bd, "libnaken_%s.a" % vname)
            objs = [j[1] for j in jobs if ("/%s/main/" % vname) not in j[1]]
            if n or not os.path.exists(lib):
                if os.path.exists(lib):
                    os.unlink(lib)
                run("ar crs %s %s" % (lib, " ".join(objs)))
        lib = os.path.join(bd, "libnaken_san.a")
        for prog in ("naken_asm", "naken_util"):
            exe = os.path.join(bd, prog + "_san")
            mobj = os.path.join(bd, "san", "main", prog + ".o")
            if n or not os.path.exists(exe) or os.path.getmtime(exe) < max(os.path.getmtime(lib), os.path.getmtime(mobj)):
                run("%s %s %s -o %s %s %s" % (CXX, BASE, SAN, exe, os.path.join(bd, "san", "main", prog + ".o"), lib))
        # harness binaries
        for name in sorted(want):
            if name not in HARNESS_BINS:
                continue
            srcs, lflags, fuzz = HARNESS_BINS[name]
            v = "fuzz" if fuzz else "san"
            vflag = " -fsanitize=fuzzer-no-link" if fuzz else ""
            flags = "%s %s%s -I%s -I%s/harness" % (BASE, SAN, vflag, repo, VERIF)
            jobs = []
            for s in srcs:
                src = os.path.join(VERIF, "harness", s)
                obj = os.path.join(bd, v, "harness", s[:-4] + ".o")
                jobs.append((src, obj, flags, sha(read(src), hh, flags)))
            m = compile_objs(jobs)
            exe = os.path.join(bd, name)
            libv = os.path.join(bd, "libnaken_%s.a" % v)
            main_objs = [os.path.join(bd, v, "main", p + "_fn.o") for p in ("naken_asm", "naken_util")]
            newest = max(os.path.getmtime(x) for x in [libv] + main_objs + [j[1] for j in jobs])
            if n or m or not os.path.exists(exe) or os.path.getmtime(exe) < newest:
                mains = " ".join(main_objs)
                run("%s %s %s -o %s %s %s %s %s" % (
                    CXX, BASE, SAN, exe, " ".join(j[1] for j in jobs), mains,
                    os.path.join(bd, "libnaken_%s.a" % v), lflags))
        if not quiet:
            print("nvbuild: %d objects rebuilt in %.1fs -> %s" % (n, time.time() - t0, bd))
        return bd
    finally:
        fcntl.flock(lock, fcntl.LOCK_UN)
        lock.close()


if __name__ == "__main__":
    args = sys.argv[1:]
    if "--repo" in args:
        i = args.index("--repo")
        os.environ["NV_REPO"] = args[i + 1]
        del args[i:i + 2]
    if "--clean" in args:
        shutil.rmtree(os.path.join(VERIF, "build"), ignore_errors=True)
        args.remove("--clean")
    build(args or None, quiet=False)
