"""Shared statement pools: instruction texts taken from tests/comparison/<cpu>.txt (text column only -
the hex column is never used as an oracle) plus data directives."""
import os, random, re
import nvbuild

# comparison file -> cpu directive
CPU_FILES = {
    "msp430": "msp430", "z80": "z80", "mips": "mips", "6502": "6502", "avr8": "avr8", "68000": "68000",
    "riscv": "riscv", "arm": "arm", "thumb": "thumb", "stm8": "stm8", "6809": "6809", "8051": "8051",
    "powerpc": "powerpc", "pic14": "pic14", "1802": "1802", "sh4": "sh4", "tms340": "tms340",
    "65816": "65816", "68hc08": "68hc08", "epiphany": "epiphany", "dspic": "dspic", "xtensa": "xtensa",
    "propeller": "propeller", "cell": "cell", "arm64": "arm64", "lc3": "lc3", "m8c": "m8c", "f8": "f8",
    "8048": "8048", "8008": "8008", "6800": "6800", "unsp": "unsp", "sweet16": "sweet16", "pdk14": "pdk14",
    "cp1610": "cp1610", "arc": "arc", "pic18": "pic18", "86000": "86000", "propeller2": "propeller2",
    "msp430x": "msp430x", "riscv64": "riscv64", "pic32": "pic32", "ps2_ee": "ps2_ee", "n64_rsp": "n64_rsp",
    "8041": "8041", "pdk13": "pdk13", "pdk15": "pdk15",
}


def comparison_lines(cpu):
    p = os.path.join(nvbuild.repo_dir(), "tests", "comparison", cpu + ".txt")
    out = []
    try:
        for line in open(p, encoding="latin-1"):
            if "|" not in line:
                continue
            t = line.split("|")[0].strip()
            if not t or ":" in t or t.startswith(".") or t.startswith(";"):
                continue
            out.append(t)
    except OSError:
        pass
    return out


def validated_pool(worker, cpu, rnd, want=40, org=None):
    """sample `want` comparison lines of `cpu` that the assembler under test accepts on their own"""
    lines = comparison_lines(cpu)
    rnd.shuffle(lines)
    pool = []
    for t in lines[:want * 3]:
        src = ".%s\n%s%s\n" % (CPU_FILES.get(cpu, cpu), ".org %s\n" % org if org else "", t)
        try:
            r = worker.asm(src)
        except Exception:
            continue
        if r.ok and r.image:
            pool.append(t)
        if len(pool) >= want:
            break
    return pool


def position_independent(text):
    return not re.search(r"[0-9$]", text)


# --------------------------------------------------------------------------
# Structured valid-program generator shared by C12, C13, C18 (no model needed:
# those properties use consistency / equality oracles).
from hypothesis import strategies as _st

GEN_CPUS = ["msp430", "z80", "mips", "avr8", "68000", "6502", "riscv", "arm", "stm8", "8051", "powerpc",
            "6809", "thumb", "pic14", "1802", "sh4", "xtensa", "epiphany", "tms9900", "lc3"]


class Prog:
    """lines of the main file, extra files, and where things are (for corruption placement)"""

    def __init__(self, cpu):
        self.cpu = cpu
        self.lines = []
        self.files = []            # (name, text)
        self.ctx = []              # parallel to lines: context tag of each line
        self.macro_invoked = set()
        self.file_ctx = {}         # file index -> "if_taken" / "if_untaken" when the .include sits inside a conditional

    def add(self, text, ctx="top"):
        self.lines.append(text)
        self.ctx.append(ctx)

    def source(self):
        return "\n".join(self.lines) + "\n"


@_st.composite
def data_stmt(draw):
    k = draw(_st.integers(0, 7))
    if k == 6:
        return ".asciiz \"%s\"" % draw(_st.text(alphabet="abcdefXYZ 0123", min_size=0, max_size=10))
    if k == 7:
        return ".asciiz \"%s\", \"%s\"" % (draw(_st.text(alphabet="abcXYZ", min_size=1, max_size=4)),
                                          draw(_st.text(alphabet="0123 ", min_size=0, max_size=4)))
    if k == 0:
        return ".db " + ", ".join(str(draw(_st.integers(0, 255))) for _ in range(draw(_st.integers(1, 6))))
    if k == 1:
        return ".dw " + ", ".join("0x%x" % draw(_st.integers(0, 65535)) for _ in range(draw(_st.integers(1, 4))))
    if k == 2:
        return ".dc32 " + ", ".join("0x%x" % draw(_st.integers(0, (1 << 32) - 1)) for _ in range(draw(_st.integers(1, 3))))
    if k == 3:
        return ".ascii \"%s\"" % draw(_st.text(alphabet="abcdefXYZ 0123\t", min_size=1, max_size=10))
    if k == 4:
        return ".dc64 0x%x" % draw(_st.integers(0, (1 << 64) - 1))
    return ".db %d" % draw(_st.integers(0, 255))


FAR_ORGS = [0x10000, 0x20000, 0x2c000, 0x30000, 0x50000, 0x100000]


@_st.composite
def structured_program(draw, pools, cpus=None, align_data=True, repeats=True, far_orgs=False):
    cpu = draw(_st.sampled_from([c for c in (cpus or GEN_CPUS) if pools.get(c)]))
    pool = pools[cpu]
    p = Prog(cpu)
    if align_data is None:
        align_data = draw(_st.integers(0, 2)) != 0      # sometimes code follows odd-length data unaligned
    al = ["  .align 64"] if align_data else []
    p.add(".%s" % CPU_FILES.get(cpu, cpu), "header")
    if draw(_st.booleans()):
        p.add(".org 0x%x" % draw(_st.sampled_from([0x0, 0x100, 0x200, 0x1000, 0x8000])), "header")
    nlab = 0
    nmac = 0
    macros = []
    n = draw(_st.integers(2, 14))
    # far_orgs: later segments at ascending 64 KiB / 16 KiB aligned addresses (whole unallocated pages in between),
    # each opened by a data statement or an instruction placed exactly at the aligned address
    far_at = {}
    if far_orgs and draw(_st.sampled_from([True, True, False])):
        k_far = draw(_st.integers(1, 3))
        idxs = sorted(draw(_st.lists(_st.integers(0, len(FAR_ORGS) - 1), min_size=k_far, max_size=k_far, unique=True)))
        poss = sorted(draw(_st.lists(_st.integers(0, n - 1), min_size=k_far, max_size=k_far, unique=True))) if n >= k_far \
            else list(range(n))
        far_at = dict(zip(poss, idxs))

    def body(ctx, k):
        out = []
        for _ in range(k):
            if draw(_st.integers(0, 3)) == 0:
                out.append("  " + draw(data_stmt()))
                out.extend(al)
            else:
                out.append("  " + draw(_st.sampled_from(pool)))
        return out

    for pos_ in range(n):
        if pos_ in far_at:
            p.add(".org 0x%x" % FAR_ORGS[far_at[pos_]], "top")
            if draw(_st.booleans()):
                p.add("  " + draw(data_stmt()), "top")
                for a_ in al:
                    p.add(a_, "top")
        c = draw(_st.integers(0, 13))
        if c <= 4:
            p.add("  " + draw(_st.sampled_from(pool)), "top")
        elif c == 5:
            p.add("  " + draw(data_stmt()), "top")
            for a_ in al:
                p.add(a_, "top")
        elif c == 6:
            p.add("lbl_%d:" % nlab, "top")
            nlab += 1
        elif c == 7 and nlab:
            p.add("  .dc32 lbl_%d" % draw(_st.integers(0, nlab - 1)), "top")
        elif c == 8:
            name = "MC%d" % nmac
            nmac += 1
            p.add(".macro %s(pa)" % name, "macrodef")
            p.add("  .db pa, pa + 1", "macro:" + name)
            p.add("  .db pa", "macro:" + name)
            for a_ in al:
                p.add(a_, "macro:" + name)
            for t in body("macro", draw(_st.integers(0, 2))):
                p.add(t, "macro:" + name)
            p.add(".endm", "macrodef")
            macros.append(name)
        elif c == 9 and macros:
            m = draw(_st.sampled_from(macros))
            p.add("  %s(%d)" % (m, draw(_st.integers(0, 200))), "top")
            p.macro_invoked.add(m)
        elif c == 10:
            taken = draw(_st.booleans())
            p.add(".if %d" % (1 if taken else 0), "ifdir")
            for t in body("if", draw(_st.integers(1, 3))):
                p.add(t, "if_taken" if taken else "if_untaken")
            if draw(_st.sampled_from([True, False, False])):
                # an include file pulled in from inside the open conditional
                name = "inc%d.inc" % len(p.files)
                text = (".list\n" if align_data else "") + "\n".join(body("inc", draw(_st.integers(1, 3)))) + "\n"
                p.file_ctx[len(p.files)] = "if_taken" if taken else "if_untaken"
                p.files.append((name, text))
                p.add(".include \"%s\"" % name, "if_taken" if taken else "if_untaken")
            if draw(_st.booleans()):
                p.add(".else", "ifdir")
                for t in body("else", draw(_st.integers(1, 2))):
                    p.add(t, "if_untaken" if taken else "if_taken")
            p.add(".endif", "ifdir")
        elif c == 11 and repeats:
            p.add(".repeat %d" % draw(_st.integers(1, 4)), "repeatdir")
            for _ in range(draw(_st.integers(1, 2))):
                p.add("  " + draw(data_stmt()), "repeat")
                p.add("  .align 64", "repeat")
            p.add(".endr", "repeatdir")
        elif c == 12:
            name = "inc%d.inc" % len(p.files)
            text = (".list\n" if align_data else "") + "\n".join(body("inc", draw(_st.integers(1, 3)))) + "\n"
            p.files.append((name, text))
            p.add(".include \"%s\"" % name, "includedir")
        else:
            p.add("  ; a comment line", "top")
    if not align_data:
        # the shape this mode exists for: an instruction directly after odd-length data (alignment padding)
        p.add("  .db 0x%02x" % draw(_st.integers(0, 255)), "top")
        p.add("  " + draw(_st.sampled_from(pool)), "top")
    # forward reference target at the end
    if draw(_st.booleans()):
        p.add("  .dc32 lbl_end", "top")
    p.add("lbl_end:", "top")
    p.add("  .db 0x5a", "top")
    p.add("  .align 64", "top")
    return p


# statements that expand to several instructions / several words (pseudo instructions)
MULTIWORD = {
    "mips": ["li $t0, 0x12345678", "li $s1, 0xfedc8765", "la $t1, lbl_end", "li $t2, 0x10000"],
    "riscv": ["li t0, 0x12345678", "li a0, 0x7fedc123", "la t1, lbl_end"],
    "msp430": ["mov.w #0x1234, &0x0200", "add.w 2(r5), 4(r6)"],
    "68000": ["move.l #0x12345678, (0x1000).l", "add.l #0x10000, d1"],
    "arm": ["ldr r0, =0x12345678"],
    "z80": ["ld (ix+5), 0x12", "ld bc, 0x1234"],
    "avr8": ["lds r16, 0x1234", "call 0x1234"],
    "6809": ["ldd #0x1234", "lda [0x1234]"],
    "epiphany": ["mov r0, #0x1234", "movt r0, #0x5678"],
    "xtensa": ["l32r a2, lbl_end"],
}


def make_pools(worker, cpus, want=25, seed=7, multiword=False):
    import random as _r
    pools = {}
    for c in cpus:
        pools[c] = validated_pool(worker, c, _r.Random(seed * 1000 + sum(map(ord, c))), want=want)
        if multiword and pools[c]:
            for t in MULTIWORD.get(c, []):
                try:
                    r = worker.asm(".%s\n%s\nlbl_end:\n" % (CPU_FILES.get(c, c), t))
                except Exception:
                    continue
                if r.ok and r.image:
                    pools[c] += [t, t]          # weighted
    return pools
