"""Shared statement pools: instruction texts taken from tests/comparison/<cpu>.txt (text column only -
the hex column is never used as an oracle) plus data directives."""
import os, random, re
import nvbuild

# comparison file -> cpu directive
CPU_FILES = {
    "msp430": "msp430", "z80": "z80", "mips": "mips", "6502": "6502", "avr8": "avr8", "68000": "68000",
    "riscv": "riscv", "arm": "arm", "thumb": "thumb", "stm8": "stm8", "6809": "6809", "8051": "8051",
    "powerpc": "powerpc", "pic14": "pic14", "1802": "1802", "sh4": "sh4", "tms340": "tms340",
    "65816": "65816", "68hc08": "68hc08", "epiphany": "epiphany", "dspic": "dspic", "xtensa": "xtensa",
    "propeller": "propeller", "cell": "cell", "arm64": "arm64", "lc3": "lc3", "m8c": "m8c", "f8": "f8",
    "8048": "8048", "8008": "8008", "6800": "6800", "unsp": "unsp", "sweet16": "sweet16", "pdk14": "pdk14",
    "cp1610": "cp1610", "arc": "arc", "pic18": "pic18", "86000": "86000", "propeller2": "propeller2",
    "msp430x": "msp430x", "riscv64": "riscv64", "pic32": "pic32", "ps2_ee": "ps2_ee", "n64_rsp": "n64_rsp",
    "8041": "8041", "pdk13": "pdk13", "pdk15": "pdk15",
}


def comparison_lines(cpu):
    p = os.path.join(nvbuild.repo_dir(), "tests", "comparison", cpu + ".txt")
    out = []
    try:
        for line in open(p, encoding="latin-1"):
            if "|" not in line:
                continue
            t = line.split("|")[0].strip()
            if not t or ":" in t or t.startswith(".") or t.startswith(";"):
                continue
            out.append(t)
    except OSError:
        pass
    return out


def validated_pool(worker, cpu, rnd, want=40, org=None):
    """sample `want` comparison lines of `cpu` that the assembler under test accepts on their own"""
    lines = comparison_lines(cpu)
    rnd.shuffle(lines)
    pool = []
    for t in lines[:want * 3]:
        src = ".%s\n%s%s\n" % (CPU_FILES.get(cpu, cpu), ".org %s\n" % org if org else "", t)
        try:
            r = worker.asm(src)
        except Exception:
            continue
        if r.ok and r.image:
            pool.append(t)
        if len(pool) >= want:
            break
    return pool


def position_independent(text):
    return not re.search(r"[0-9$]", text)
