"""C01 Assembler and disassembler agree: encode->decode->encode is a fixpoint; golden MSP430 / RV32I."""
import hashlib, json, os, re, random
from hypothesis import strategies as st

from nvlib import (Worker, WorkerCrash, WorkerTimeout, Stats, Violation, hyp_run, shard_seed, load_known)
import progs, c07
import ref_encoders as ref

PROP = "C01"
RULE = ("four constructive sources of (cpu, instruction text, address): (a) every instruction text of "
        "tests/comparison (47 CPUs; the hex column is never used), (b) boundary-value mutants of their numeric "
        "operands and register numbers (a fixed sequence per line, quick = prefix of thorough, independent of VERIF_SEED "
        "so that the explored set - and with it the list of known disagreements - is exact), (c) renderings produced by the disassembler over the enumerated leading "
        "16-bit patterns (23 more CPUs; shared scan with C07), (d) Hypothesis ASTs of the 27 MSP430 core instructions "
        "x 7 source x 4 destination modes x .b/.w and the 40 RV32I base instructions with boundary registers/"
        "immediates/targets at several addresses. For every accepted instruction: walking the decoder over the "
        "emitted bytes consumes exactly those bytes; every decoded text that the assembler accepts at its address "
        "re-assembles to the same bytes; for (d) the bytes equal independent reference encoders written from the "
        "manuals (constant generators, symbolic mode offsets, -optimize 0(Rn)->@Rn). non-trivial = loop closed "
        "(decoded text re-accepted); distinct key = (cpu, mnemonic, operand shape)")
ASSUMPTIONS = ["reference encoders in pyprops/ref_encoders.py are the reading of SLAU144 / the RISC-V unprivileged spec",
               "decoder annotations in trailing parentheses are dropped before re-assembly when the plain text is rejected"]

ADDRS = [0x0, 0x100, 0xfff0, 0x12344]
NUM = re.compile(r"(?<![A-Za-z_$.0-9])(0x[0-9a-fA-F]+|[0-9]+)(?![A-Za-z_0-9.])")
BOUND = [0, 1, 2, 7, 8, 15, 16, 31, 32, 63, 127, 128, 255, 256, 511, 1023, 2047, 2048, 4095, 4096, 32767, 32768,
         65535, 65536, 0xfffff, 0x100000, 0x7fffffff,
         -1, -2, -8, -15, -16, -17, -32, -33, -64, -127, -128, -129, -256, -2048, -2049, -32768, -32769]


def shape_of(text):
    t = NUM.sub("N", text)
    t = re.sub(r"[a-zA-Z]+[0-9]+", "R", t)
    return t


def strip_annotation(t):
    t2 = t.rstrip()
    if t2.endswith(")"):
        i = t2.rfind(" (")
        if i > 0:
            return t2[:i]
    return t


class Checker:
    def __init__(self, stats, worker, known, survey):
        self.s = stats
        self.w = worker
        self.known = known
        self.survey = survey
        self.units = None

    def asm1(self, cpu, addr, text, optimize=False):
        if self.units is None:
            self.units = {c["name"]: c["unit"] for c in self.w.cpus()}
        d = progs.CPU_FILES.get(cpu, cpu)
        unit = self.units.get(d, 1)
        src = ".%s\n.org 0x%x\n%s\n" % (d, addr // unit, text)
        try:
            r = self.w.asm(src, flags="O" if optimize else "")
        except (WorkerCrash, WorkerTimeout) as e:
            return e
        if not r.ok or not r.image:
            return None
        a = min(r.image)
        if a != addr or sorted(r.image) != list(range(a, a + len(r.image))):
            return None
        return bytes(r.image[a + i] for i in range(len(r.image)))

    def report(self, cpu, kind, mn, payload):
        # generated texts (sources a, b) are an open-ended domain: their anomalies are a separate kind so that known
        # findings can be listed per CPU there and per mnemonic for the exhaustive scan
        if payload.get("mode") == "roundtrip":
            kind = kind + "_rt"
        sig = "*"
        if kind.startswith("c01_refix") and "want" in payload:
            sig = c07.refix_signature(payload["want"], payload["reassembled"])
        if self.survey:
            self.s.notes.append("SURVEY\t%s\t%s\t%s\t1\t%s" % (cpu, kind, mn if sig == "*" else mn + "/" + sig,
                                                              json.dumps(payload)))
            return
        fid = self.known.match(cpu, kind, mn, sig)
        if fid:
            self.s.known_hits.setdefault(fid, dict(cpu=cpu, kind=kind, mnemonic=mn, example=payload))
            self.s.excluded_known += 1
            return
        raise Violation(dict(engine="c01", cpu=cpu, kind=kind, mnemonic=mn, **payload))

    def roundtrip(self, cpu, addr, text):
        """returns 'rejected' | 'ok' | 'closed'"""
        b1 = self.asm1(cpu, addr, text)
        mn = text.split()[0].lower()
        if isinstance(b1, WorkerCrash):
            self.report(cpu, "asm_crash", mn, dict(what="assembler crashed", text=text, addr=addr,
                                                   detail=b1.report[-400:], mode="roundtrip"))
            return "rejected"
        if isinstance(b1, WorkerTimeout) or b1 is None:
            return "rejected"
        d = progs.CPU_FILES.get(cpu, cpu)
        try:
            dis = self.w.dis(d, addr, b1, count=32)
        except (WorkerCrash, WorkerTimeout) as e:
            self.report(cpu, "dis_crash", mn, dict(what="disassembler crashed on bytes the assembler emitted",
                                                   text=text, addr=addr, bytes=b1.hex(), mode="roundtrip"))
            return "rejected"
        consumed = sum(n for _, n, _ in dis if n > 0)
        if consumed != len(b1) or any(n <= 0 for _, n, _ in dis):
            self.report(cpu, "c01_walk", mn, dict(what="walking the disassembler over the emitted bytes does not consume "
                                                      "exactly those bytes", text=text, addr=addr, bytes=b1.hex(),
                                                  decoded=[(hex(a), n, t) for a, n, t in dis][:6], mode="roundtrip"))
            return "ok"
        closed = False
        for a, n, t in dis:
            if "???" in t or not t.strip():
                continue
            b2 = self.asm1(cpu, a, t)
            if b2 is None or isinstance(b2, (WorkerCrash, WorkerTimeout)):
                t2 = strip_annotation(t)
                b2 = self.asm1(cpu, a, t2) if t2 != t else None
            if b2 is None or isinstance(b2, (WorkerCrash, WorkerTimeout)):
                continue
            closed = True
            want = b1[a - addr:a - addr + n]
            if b2 != want:
                self.report(cpu, "c01_refix", mn, dict(what="assembling the disassembly of the emitted bytes gives "
                                                           "different bytes", text=text, addr=addr, bytes=b1.hex(),
                                                       decoded=t, reassembled=b2.hex(), want=want.hex(), mode="roundtrip"))
        return "closed" if closed else "ok"


# --------------------------------------------------------------- golden ASTs
REGS430 = [4, 5, 9, 12, 15]


@st.composite
def msp_operand_src(draw, addr):
    k = draw(st.sampled_from(["reg", "idx", "sym", "abs", "ind", "inc", "imm", "imm"]))
    if k == "reg":
        return ("reg", draw(st.sampled_from(REGS430)))
    if k == "idx":
        return ("idx", draw(st.sampled_from([2, 6, 100, -2, -100, 0x7ffe, 1])), draw(st.sampled_from(REGS430)))
    if k == "sym":
        return ("sym", draw(st.sampled_from([0x200, 0x1234, 0xfffe, addr & 0xffff, (addr + 0x40) & 0xfffe])))
    if k == "abs":
        return ("abs", draw(st.sampled_from([0x200, 0x1234, 0xfffe, 0x0020])))
    if k in ("ind", "inc"):
        return (k, draw(st.sampled_from(REGS430)))
    return ("imm", draw(st.sampled_from([0, 1, 2, 4, 8, -1, 3, 5, 16, 100, 0x1234, 0x7fff, 0x8000, 0xfffe])))


@st.composite
def msp_ins(draw, addr):
    c = draw(st.integers(0, 9))
    if c <= 5:
        name = draw(st.sampled_from(sorted(ref.MSP_TWO)))
        bw = draw(st.integers(0, 1))
        src = draw(msp_operand_src(addr))
        if bw and src[0] == "imm":
            src = ("imm", draw(st.sampled_from([0, 1, 2, 4, 8, -1, 3, 0x7f, 0x80, 0x55])))
        d = draw(msp_operand_src(addr))
        if d[0] in ("ind", "inc", "imm"):
            d = ("reg", draw(st.sampled_from(REGS430)))
        return ("two", name, bw, src, d)
    if c <= 7:
        name = draw(st.sampled_from(sorted(ref.MSP_ONE)))
        bw = draw(st.integers(0, 1)) if name in ("rrc", "rra", "push") else 0
        op = draw(msp_operand_src(addr))
        if name != "push" and name != "call" and op[0] == "imm":
            op = ("reg", draw(st.sampled_from(REGS430)))
        if name == "call" and op[0] == "imm":
            op = ("imm", draw(st.sampled_from([0x1234, 0x8000, 0xf000])))
        if name == "push" and bw and op[0] == "imm":
            op = ("imm", draw(st.sampled_from([0, 1, 2, 4, 8, -1, 3, 0x7f, 0x55])))
        return ("one", name, bw, op)
    if c == 8:
        return ("reti",)
    name = draw(st.sampled_from(sorted(ref.MSP_JMP)))
    off = draw(st.sampled_from([0, 1, -1, 2, 100, -100, 510, 511, -511, -512]))
    return ("jmp", name, (addr + 2 + 2 * off) & 0xffffffff)


RVREG = [0, 1, 2, 5, 10, 15, 31]


@st.composite
def rv_ins(draw, addr):
    n = draw(st.sampled_from(sorted(ref.RV_R) + sorted(ref.RV_I) + sorted(ref.RV_SH) + sorted(ref.RV_L) +
                             sorted(ref.RV_S) + sorted(ref.RV_B) + ["lui", "auipc", "jal", "jalr", "fence", "ecall",
                                                                   "ebreak"]))
    r = lambda: draw(st.sampled_from(RVREG))
    imm12 = lambda: draw(st.sampled_from([0, 1, -1, 2, 7, 100, -100, 2047, -2048, 1024, -1024]))
    if n in ref.RV_R:
        return (n, r(), r(), r())
    if n in ref.RV_I:
        return (n, r(), r(), imm12())
    if n in ref.RV_SH:
        return (n, r(), r(), draw(st.sampled_from([0, 1, 15, 16, 31])))
    if n in ref.RV_L:
        return (n, r(), imm12(), r())
    if n in ref.RV_S:
        return (n, r(), imm12(), r())
    if n in ref.RV_B:
        off = draw(st.sampled_from([0, 4, -4, 8, 2044, -2048, 4094, -4096, 2048, -2052]))
        if addr + off < 0:
            off = min(-off, 4094)
        return (n, r(), r(), addr + off)
    if n in ("lui", "auipc"):
        return (n, r(), draw(st.sampled_from([0, 1, 0x12345, 0x7ffff, 0x80000, 0xfffff])))
    if n == "jal":
        off = draw(st.sampled_from([0, 4, -4, 2048, -2048, 0xffffe, -0x100000, 0x800, 0x7fe]))
        if addr + off < 0:
            off = min(-off, 0xffffe)
        return (n, r(), addr + off)
    if n == "jalr":
        return (n, r(), r(), imm12())
    return (n,)


REL = [-4096, -4094, -2052, -2050, -2048, -1026, -1024, -258, -256, -130, -128, -126, -4, -2, 0, 2, 4, 126, 128, 254, 256,
       1022, 1024, 2046, 2048, 4094, 4096, 32766, -32768, 65534, -65536, 0xffffe, -0x100000]


def run(tier, seed, shard, nshards):
    s = Stats()
    w = Worker("c01", timeout=3000)
    survey = os.environ.get("NV_SURVEY") == "1"
    known = c07.Known(PROP)
    ck = Checker(s, w, known, survey)
    try:
        cpus = w.cpus()
        # ---- (c): disassembler renderings over enumerated patterns (shared scan with C07)
        mine = [c for i, c in enumerate(cpus) if i % nshards == shard]
        for c in mine:
            for v in c07.scan(w, s, c["name"], tier, ("c01_walk", "c01_refix"), known, PROP, survey, c["align"],
                              deep=(c["unit"] == 1 and c["align"] == 1)):
                v["engine"] = "c01"
                v["mode"] = "scan"
                s.violations.append(v)
        # ---- (a)+(b): corpus lines and operand mutants
        rnd = random.Random(shard_seed(seed, shard, "c01"))
        corp = [c for i, c in enumerate(sorted(progs.CPU_FILES)) if i % nshards == shard]
        nmut = 8 if tier == "quick" else 40
        nrel = 3 if tier == "quick" else 24
        try:
            for cpu in corp:
                lines = progs.comparison_lines(cpu)
                for t in lines:
                    variants = [(t, ADDRS[1])]
                    # The mutants of a line are a fixed sequence (seeded by the line itself, not by VERIF_SEED) and the
                    # quick tier takes a prefix of the thorough tier's sequence: the explored set is the same on
                    # every run, so the list of known disagreements is exact for it.
                    hseed = int.from_bytes(hashlib.sha256(("%s|%s" % (cpu, t)).encode("latin-1")).digest()[:8], "little")
                    rnd_num = random.Random(hseed)
                    rnd_reg = random.Random(hseed ^ 0x5bd1e995)
                    holes = [m.span(1) for m in NUM.finditer(t)]
                    for _ in range(min(nmut, 4 * len(holes))):
                        sp = rnd_num.choice(holes)
                        v = rnd_num.choice(BOUND)
                        hexsp = rnd_num.random() < 0.5
                        variants.append((t[:sp[0]] + (("-0x%x" % -v if v < 0 else "0x%x" % v) if hexsp else str(v)) + t[sp[1]:],
                                         rnd_num.choice(ADDRS)))
                    # PC-relative boundary targets: the same holes filled with address + boundary offset
                    rnd_rel = random.Random(hseed ^ 0x9e3779b9)
                    for _ in range(min(nrel, 3 * len(holes))):
                        sp = rnd_rel.choice(holes)
                        a = rnd_rel.choice(ADDRS[1:])
                        v = a + rnd_rel.choice(REL)
                        if v >= 0:
                            variants.append((t[:sp[0]] + "0x%x" % v + t[sp[1]:], a))
                    regs = list(re.finditer(r"(?<![A-Za-z0-9_])([a-zA-Z$]+)([0-9]{1,2})(?![0-9A-Za-z_])", t))
                    for _ in range(min(nmut // 2, 2 * len(regs))):
                        m = rnd_reg.choice(regs)
                        variants.append((t[:m.start(2)] + str(rnd_reg.randrange(0, 32)) + t[m.end(2):], ADDRS[1]))
                    for text, addr in variants:
                        s.evaluations += 1
                        res = ck.roundtrip(cpu, addr, text)
                        s.count("corpus." + res)
                        if res == "closed":
                            s.nt((cpu, text.split()[0].lower(), shape_of(text)))
                    if len(s.samples) < 3 and variants:
                        s.sample(dict(cpu=cpu, text=variants[-1][0], addr=variants[-1][1]))
        except Violation as v:
            s.violations.append(v.payload)

        # ---- (d): golden encodings
        def test_msp(case):
            addr, ins, optimize = case
            s.evaluations += 1
            text = ref.msp430_text(ins)
            want = ref.msp430_encode(ins, addr)
            if optimize and ins[0] == "two" and ins[3][0] == "idx" and ins[3][1] == 0:
                ins2 = ("two", ins[1], ins[2], ("ind", ins[3][2]), ins[4])
                want = ref.msp430_encode(ins2, addr)
            wb = b"".join(x.to_bytes(2, "little") for x in want)
            got = ck.asm1("msp430", addr, text, optimize)
            s.count("golden.msp430")
            if isinstance(got, (WorkerCrash, WorkerTimeout)) or got is None:
                ck.report("msp430", "golden_rejected", text.split()[0], dict(
                    what="MSP430 instruction of the core set rejected", text=text, addr=addr, expected=wb.hex(),
                    mode="golden", optimize=optimize))
                return
            s.nt(("msp430", ins[0], ins[1] if len(ins) > 1 else "", ins[3][0] if ins[0] == "two" else "",
                  ins[4][0] if ins[0] == "two" else ""))
            if not optimize:
                ck.roundtrip("msp430", addr, text)       # the disassembler must agree on the golden forms too
            if got != wb:
                ck.report("msp430", "golden_mismatch", text.split()[0], dict(
                    what="bytes differ from the encoding the MSP430 family user's guide defines", text=text,
                    addr=addr, expected=wb.hex(), observed=got.hex(), mode="golden", optimize=optimize))

        def test_rv(case):
            addr, ins = case
            s.evaluations += 1
            text = ref.rv32i_text(ins)
            want = ref.rv32i_encode(ins, addr).to_bytes(4, "little")
            got = ck.asm1("riscv", addr, text)
            s.count("golden.rv32i")
            if isinstance(got, (WorkerCrash, WorkerTimeout)) or got is None:
                ck.report("riscv", "golden_rejected", ins[0], dict(
                    what="RV32I base instruction rejected", text=text, addr=addr, expected=want.hex(), mode="golden"))
                return
            s.nt(("riscv", ins[0]))
            ck.roundtrip("riscv", addr, text)            # the disassembler must agree on the golden forms too
            if got != want:
                ck.report("riscv", "golden_mismatch", ins[0], dict(
                    what="bytes differ from the encoding the RISC-V specification defines", text=text, addr=addr,
                    expected=want.hex(), observed=got.hex(), mode="golden"))

        addr_m = st.sampled_from([0x0, 0x100, 0x8000, 0xfff0 - 16])
        addr_r = st.sampled_from([0x0, 0x100, 0x10000, 0x7fff0000])
        n = 250 if tier == "quick" else 6000
        hyp_run(test_msp, addr_m.flatmap(lambda a: st.tuples(st.just(a), msp_ins(a), st.booleans())), n,
                shard_seed(seed, shard, "c01m"), s)
        hyp_run(test_rv, addr_r.flatmap(lambda a: st.tuples(st.just(a), rv_ins(a))), n,
                shard_seed(seed, shard, "c01r"), s)
    finally:
        w.close()
    return s


def EXTRA(m):
    vac = sorted(k.split(".", 1)[1] for k in m["classes"] if k.startswith("vacuous_cpu."))
    return dict(vacuous_cpus=vac)


def replay(payload):
    w = Worker("c01r", timeout=600)
    s = Stats()
    class K:
        def match(self, *a):
            return None
    ck = Checker(s, w, K(), False)
    try:
        mode = payload.get("mode")
        if mode == "scan":
            return c07.replay(payload)
        try:
            if mode == "roundtrip":
                ck.roundtrip(payload["cpu"], payload["addr"], payload["text"])
            elif mode == "golden":
                got = ck.asm1(payload["cpu"], payload["addr"], payload["text"], payload.get("optimize", False))
                if payload["kind"] == "golden_rejected":
                    return (got is None or isinstance(got, Exception)), "rejected" if got is None else "accepted"
                return (got is not None and not isinstance(got, Exception) and got.hex() != payload["expected"]), \
                    "bytes now %s" % (got.hex() if isinstance(got, bytes) else got)
        except Violation as v:
            return True, v.payload
        return False, "passes"
    finally:
        w.close()
