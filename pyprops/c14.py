"""C14 The MSP430 simulator executes every instruction as the architecture defines."""
import os, re, random, struct, tempfile, shutil
from hypothesis import strategies as st
from nvlib import (Worker, WorkerCrash, WorkerTimeout, Stats, Violation, shard_seed, load_known, run_cli, hyp_run)
import ref_msp430 as ref
import formats

PROP = "C14"
RULE = ("(a) single steps: first opcode words of the 16-bit core (quick: seeded sample from the field product op x As x "
        "Ad x B/W x src x dst, thorough: all 65,536 first words x several states) with extension words, register "
        "values, memory operands (placed at the effective addresses the reference computes) and SR drawn from "
        "{0,1,2,0x7f,0x80,0xff,0x100,0x7fff,0x8000,0xffff, BCD values, keyed random}; one run(-1,1) step on a fresh "
        "SimulateMsp430 inside the sanitized harness (forked batches); registers r0-r15 except r3, all 16 SR bits "
        "and every changed memory byte are compared with ref_msp430.step(), a model written from the family user's "
        "guide. Encodings/operands the guide leaves undefined (word access at odd addresses, byte forms of "
        "swpb/sxt/call, constants as format-II destination, non-BCD dadd operands, SP as push/call operand, flag "
        "setting writes to SR, self-modifying operands) are skipped and counted; V after DADD and the high byte "
        "written by PUSH.B are masked. (b) naken_util -run [-break_io a]: generated straight-line / counted-loop / "
        "call programs assembled by naken_asm; the final register dump, the cycle count and the exit status are "
        "compared with the reference executing the image read back with an independent hex reader. non-trivial = "
        "step that changes a flag or memory, or a program with a loop or call; distinct key = (instruction, src "
        "mode, dst mode, B/W, resulting CZNV)")
ASSUMPTIONS = ["PC and SP even, word operands at even addresses (the guide: words are only located at even addresses)",
               "undefined first words (0x0000-0x0fff, 0x1380-0x1fff: MSP430X or reserved) are C15's business, not compared here",
               "cycle table = SLAU144 tables 3-14/3-15/3-16 (16-bit CPU, not CPUX)"]

BOUND = [0, 1, 2, 0x7f, 0x80, 0xff, 0x100, 0x7fff, 0x8000, 0xffff, 0xfffe, 0x8001, 0x7ffe, 0x00fe, 0x0081,
         0x0099, 0x9999, 0x0999, 0x1234, 0x5000, 0x4999, 0x0009, 0x0010, 0x55aa]
MIXC = 2654435761
C, Z, N, V = ref.C, ref.Z, ref.N, ref.V


def mix(x):
    x &= 0xffffffff
    x ^= x >> 16
    x = (x * 0x7feb352d) & 0xffffffff
    x ^= x >> 15
    x = (x * 0x846ca68b) & 0xffffffff
    x ^= x >> 16
    return x


def fill_fn(key):
    return lambda a: mix(((a * MIXC) & 0xffffffff) ^ key) & 0xff


class Known:
    def __init__(self):
        self.items = []
        for f in load_known(PROP):
            m = f.get("match", {})
            if m.get("pred") == "msp430_step":
                self.items.append((f["id"], m))

    def match(self, case, info_kind, diffkind):
        """m: {instr: [...]|None, bw: 0/1/None, as: [..]|None, src_reg: [...]|None, what: [...]}"""
        op = case["op"]
        fields = decode_fields(op)
        for fid, m in self.items:
            if m.get("instr") and info_kind not in m["instr"]:
                continue
            if m.get("bw") is not None and fields["bw"] != m["bw"]:
                continue
            if m.get("as") is not None and fields["as"] not in m["as"]:
                continue
            if m.get("src_reg") is not None and fields["sreg"] not in m["src_reg"]:
                continue
            if m.get("ad") is not None and fields["ad"] != m["ad"]:
                continue
            if m.get("what") and diffkind not in m["what"]:
                continue
            return fid
        return None


def decode_fields(op):
    if (op & 0xfc00) == 0x1000:
        return dict(fmt=2, bw=(op >> 6) & 1, sreg=op & 15, dreg=op & 15, ad=0, **{"as": (op >> 4) & 3})
    if (op & 0xe000) == 0x2000:
        return dict(fmt=3, bw=0, sreg=0, dreg=0, ad=0, **{"as": 0})
    return dict(fmt=1, bw=(op >> 6) & 1, sreg=(op >> 8) & 15, dreg=op & 15, ad=(op >> 7) & 1, **{"as": (op >> 4) & 3})


def pick(rnd):
    r = rnd.random()
    if r < 0.75:
        return rnd.choice(BOUND)
    return rnd.randrange(0x10000)


def make_case(rnd, op):
    """returns (case dict, expected) or None when the reference says the combination is undefined"""
    key = rnd.getrandbits(32)
    pc = rnd.randrange(0x0200, 0xfe00, 2)
    regs = [0] * 16
    for i in range(4, 16):
        regs[i] = pick(rnd)
    regs[0] = pc
    regs[1] = rnd.choice([0x0300, 0x0800, 0x0202, 0x7ffe, 0x8000, 0xfdfe, 0x0002, rnd.randrange(0x200, 0xfe00, 2)])
    regs[2] = (C if rnd.random() < .5 else 0) | (Z if rnd.random() < .5 else 0) | (N if rnd.random() < .5 else 0) | \
              (V if rnd.random() < .5 else 0) | (rnd.choice([0, 0, 8, 0xf8, 0xfe00]) if rnd.random() < .3 else 0)
    regs[3] = 0
    x1, x2 = pick(rnd), pick(rnd)
    f = decode_fields(op)
    # make word effective addresses even most of the time
    if not f["bw"]:
        for r_ in (f["sreg"], f["dreg"]):
            if r_ >= 4 and rnd.random() < .9:
                regs[r_] &= 0xfffe
        if rnd.random() < .9:
            x1 &= 0xfffe
            x2 &= 0xfffe
    over = {}
    for i, b in enumerate(struct.pack("<HHH", op, x1, x2)):
        over[(pc + i) & 0xffff] = b
    fill = fill_fn(key)

    def run_model(extra):
        m = ref.Mem(fill)
        m.over = dict(over)
        m.over.update(extra)
        s = list(regs)
        info = ref.step(s, m)
        return s, m, info

    try:
        s, m, info = run_model({})
    except ref.Undefined as e:
        return None, str(e)
    extra = {}
    code = set((pc + i) & 0xffff for i in range(6))
    # place boundary operands at the effective addresses
    for ea in (info.src_ea, info.dst_ea):
        if ea is None:
            continue
        v = pick(rnd)
        for k, b in enumerate(struct.pack("<H", v)):
            a = (ea + k) & 0xffff
            if a not in code and not (f["bw"] and k == 1):
                extra[a] = b
    try:
        s, m, info = run_model(extra)
    except ref.Undefined as e:
        return None, str(e)
    touched = set(m.writes)
    for ea in (info.src_ea, info.dst_ea):
        if ea is not None:
            touched.update(((ea) & 0xffff, (ea + 1) & 0xffff))
    if touched & code:
        return None, "self-modifying operand"
    if info.kind in ("push", "call", "reti"):
        # stack words overlapping operands/code are legal but the order of effects is not spelled out
        stack = set(((regs[1] + d) & 0xffff) for d in (-2, -1, 0, 1, 2, 3))
        if stack & code:
            return None, "stack on the instruction"
    allover = dict(over)
    allover.update(extra)
    case = dict(op=op, key=key, regs=regs, mem=sorted(allover.items()))
    diffs = {}
    for a, v in m.writes.items():
        if ("mem:%d" % a) in info.undef:
            continue
        if v != m.initial(a):
            diffs[a] = v
    exp = dict(regs=s, diffs=diffs, undef=sorted(info.undef), kind=info.kind)
    return (case, exp), None


def pack_cases(cases):
    out = bytearray()
    for c in cases:
        out += struct.pack("<IIII", 2, c["key"], 0, 0x10000)
        # group mem overrides into runs
        runs = []
        for a, b in c["mem"]:
            if runs and runs[-1][0] + len(runs[-1][1]) == a:
                runs[-1][1].append(b)
            else:
                runs.append([a, [b]])
        out += struct.pack("<H", len(runs))
        for a, bs in runs:
            out += struct.pack("<IH", a, len(bs)) + bytes(bs)
        out += struct.pack("<H", 16)
        for i in range(16):
            name = ("r%d" % i).encode()
            out += struct.pack("<B", len(name)) + name + struct.pack("<I", c["regs"][i])
        out += struct.pack("<I", 0xffffffff)
    return bytes(out)


REGNAMES = ",".join("r%d" % i for i in range(16))


def parse_results(blob, n):
    res = []
    pos = 0
    for _ in range(n):
        status = blob[pos]
        ret, nregs = struct.unpack_from("<iI", blob, pos + 1)
        pos += 9
        regs = list(struct.unpack_from("<%dI" % nregs, blob, pos))
        pos += 4 * nregs
        ndiff, = struct.unpack_from("<I", blob, pos)
        pos += 4
        diffs = {}
        for k in range(min(ndiff, 256)):
            a, o, v = struct.unpack_from("<IBB", blob, pos)
            pos += 6
            diffs[a] = v
        outside, first, tl = struct.unpack_from("<III", blob, pos)
        pos += 12
        text = blob[pos:pos + tl].decode("latin-1")
        pos += tl
        res.append(dict(status=status, ret=ret, regs=regs, diffs=diffs, ndiff=ndiff, outside=outside, first=first, text=text))
    return res


def compare(case, exp, got):
    """returns list of (diffkind, detail)"""
    out = []
    if got["status"] == 1:
        return [("crash", "the simulator crashed (sanitizer report or signal), child status %d" % got["ret"])]
    if got["status"] == 2:
        return [("hang", "the step did not return")]
    if got["status"] == 3:
        return [("exit", "the step called exit(%d)" % got["ret"])]
    if got["ret"] != 0:
        out.append(("ret", "run() returned %d for a defined instruction" % got["ret"]))
    for i in range(16):
        if i == 3:
            continue
        e, g = exp["regs"][i], got["regs"][i] & 0xffff
        if i == 2:
            if "V" in exp["undef"]:
                e &= ~V
                g &= ~V
            if e != g:
                bits = []
                for nm, b in (("C", C), ("Z", Z), ("N", N), ("V", V)):
                    if (e ^ g) & b:
                        bits.append(nm)
                if (e ^ g) & ~(C | Z | N | V):
                    bits.append("other")
                out.append(("flags:" + "".join(bits), "SR expected 0x%04x got 0x%04x" % (e, g)))
        elif e != g:
            out.append((("pc" if i == 0 else "sp" if i == 1 else "reg"), "r%d expected 0x%04x got 0x%04x" % (i, e, g)))
    undef_mem = set(int(u[4:]) for u in exp["undef"] if u.startswith("mem:"))
    gd = {a: v for a, v in got["diffs"].items() if a not in undef_mem}
    if gd != exp["diffs"] or got["outside"]:
        out.append(("mem", "memory changes expected %s got %s%s" % (
            {hex(a): hex(v) for a, v in sorted(exp["diffs"].items())}, {hex(a): hex(v) for a, v in sorted(gd.items())[:6]},
            " and pages outside 64K" if got["outside"] else "")))
    return out


def first_words(tier, rnd, shard, nshards):
    if tier == "thorough":
        ws = [w for w in range(0x1000, 0x10000) if (w % nshards) == shard]
        rnd.shuffle(ws)
        return [(w, 12) for w in ws]
    out = [(0x1300, 4)]
    for _ in range(15000):
        r = rnd.random()
        if r < 0.70:
            op = rnd.randrange(4, 16)
            w = (op << 12) | (rnd.randrange(16) << 8) | (rnd.randrange(2) << 7) | (rnd.randrange(2) << 6) | \
                (rnd.randrange(4) << 4) | rnd.randrange(16)
        elif r < 0.9:
            w = 0x1000 | (rnd.randrange(7) << 7) | (rnd.randrange(2) << 6) | (rnd.randrange(4) << 4) | rnd.randrange(16)
        else:
            w = 0x2000 | (rnd.randrange(8) << 10) | rnd.choice([0, 1, 0x1ff, 0x200, 0x201, 0x3ff, 0x3fe, rnd.randrange(0x400)])
        out.append((w, 2))
    return out


def describe(case, exp):
    f = decode_fields(case["op"])
    return dict(op="0x%04x" % case["op"], instr=exp["kind"], src_mode=f["as"], dst_mode=f["ad"], bw=f["bw"])


def run_steps(w, s, tier, seed, shard, nshards, known, survey):
    rnd = random.Random(shard_seed(seed, shard, "c14"))
    words = first_words(tier, rnd, shard, nshards)
    batch = []
    fails = {}

    def flush():
        if not batch:
            return
        blob = pack_cases([c for c, e in batch])
        try:
            r = w.call({"cmd": "simbatch", "cpu": "msp430", "cases": blob, "regs": REGNAMES, "space": "65536",
                        "show": "0", "steps": "1", "timeout": "5"})
        except (WorkerCrash, WorkerTimeout) as e:
            s.notes.append("HARNESS-ERROR simbatch did not complete: %s" % type(e).__name__)
            batch.clear()
            return
        results = parse_results(r["results"], len(batch))
        for (case, exp), got in zip(batch, results):
            s.evaluations += 1
            d = compare(case, exp, got)
            f = decode_fields(case["op"])
            flags = exp["regs"][2] & (C | Z | N | V)
            if exp["diffs"] or (exp["regs"][2] != case["regs"][2]):
                s.nt((exp["kind"], f["as"], f["ad"], f["bw"], flags & 0xff, flags >> 8))
            s.count("steps." + exp["kind"])
            for diffkind, detail in d:
                gk = (exp["kind"], f["bw"], f["as"], f["ad"], diffkind)
                if survey:
                    fails.setdefault(gk, []).append((case, detail))
                    continue
                fid = known.match(case, exp["kind"], diffkind)
                if fid:
                    s.known_hits.setdefault(fid, dict(describe(case, exp), detail=detail))
                    s.excluded_known += 1
                    continue
                fails.setdefault(gk, []).append((case, detail))
        batch.clear()

    for wd, nstates in words:
        for _ in range(nstates):
            res, why = make_case(rnd, wd)
            if res is None:
                s.count("skipped_undefined." + why.split(" at ")[0][:40])
                continue
            batch.append(res)
            if len(s.samples) < 2:
                s.sample(describe(*res))
            if len(batch) >= 400:
                flush()
    flush()
    for gk, lst in sorted(fails.items()):
        case, detail = lst[0]
        if survey:
            s.notes.append("SURVEY\tstep\t%s\t%d\top=0x%04x %s" % ("/".join(str(x) for x in gk), len(lst), case["op"], detail))
            continue
        s.violations.append(dict(engine="c14", part="step", instr=gk[0], bw=gk[1], src_mode=gk[2], dst_mode=gk[3],
                                 difference=gk[4], count=len(lst), detail=detail, case=case,
                                 what="single step differs from the MSP430 user's guide semantics"))


# ------------------------------------------------------------------ -run programs
SRC_OPS = ["r5", "r6", "r7", "r8", "r9", "@r4", "@r4+", "2(r4)", "&0x0240", "#1", "#2", "#4", "#8", "#0", "#-1", "#0x1234",
           "#0x8000", "#0x7fff", "#0xff", "#0x80"]
DST_OPS = ["r5", "r6", "r7", "r8", "r9", "r11", "4(r4)", "&0x0250", "&0x0260"]
TWO = ["mov", "add", "addc", "sub", "subc", "cmp", "bit", "bic", "bis", "xor", "and"]
ONE = ["rrc", "rra", "swpb", "sxt"]


@st.composite
def straight(draw, n_max=8):
    lines = []
    for _ in range(draw(st.integers(1, n_max))):
        k = draw(st.integers(0, 9))
        if k <= 6:
            ins = draw(st.sampled_from(TWO))
            sfx = draw(st.sampled_from([".w", ".b", ""]))
            src = draw(st.sampled_from(SRC_OPS))
            if sfx == ".b" and src.startswith("#0x") and int(src[1:], 16) > 0xff:
                src = "#0x%02x" % (int(src[1:], 16) >> 8)       # byte operations take byte immediates (constructed, not filtered)
            lines.append("  %s%s %s, %s" % (ins, sfx, src, draw(st.sampled_from(DST_OPS))))
        elif k == 7:
            ins = draw(st.sampled_from(ONE))
            sfx = draw(st.sampled_from([".w", ".b"])) if ins in ("rrc", "rra") else ""
            lines.append("  %s%s %s" % (ins, sfx, draw(st.sampled_from(["r5", "r6", "r7", "6(r4)", "&0x0250"]))))
        elif k == 8:
            lines.append("  push %s" % draw(st.sampled_from(["r5", "r6", "#0x1234", "#8", "@r4", "&0x0240"])))
            lines.append("  pop %s" % draw(st.sampled_from(["r7", "r8", "r9"])))
        else:
            lines.append("  %s %s" % (draw(st.sampled_from(["inc", "dec", "incd", "decd", "inv", "clr", "tst", "rla", "rlc"])),
                                      draw(st.sampled_from(["r5", "r6", "r7", "r8"]))))
    return lines


@st.composite
def program(draw):
    lines = [".msp430", ".org 0xf000", "start:", "  mov.w #0x0220, r4"]
    for r in range(5, 10):
        lines.append("  mov.w #0x%04x, r%d" % (draw(st.sampled_from(BOUND + [0x1111, 0xfedc])), r))
    for a in (0x0220, 0x0222, 0x0224, 0x0226, 0x0240, 0x0250, 0x0260):
        lines.append("  mov.w #0x%04x, &0x%04x" % (draw(st.sampled_from(BOUND)), a))
    feats = set()
    nblocks = draw(st.integers(1, 4))
    subs = []
    for b in range(nblocks):
        kind = draw(st.sampled_from(["plain", "loop", "call", "cond", "reti", "callreti"]))
        body = draw(straight())
        if kind == "plain":
            lines += body
        elif kind == "loop":
            feats.add("loop")
            cnt = draw(st.integers(1, 6))
            lines.append("  mov.w #%d, r10" % cnt)
            lines.append("loop%d:" % b)
            lines += [l for l in body if "@r4+" not in l]
            lines.append("  dec r10")
            lines.append("  jnz loop%d" % b)
        elif kind == "call":
            feats.add("call")
            lines.append("  call #sub%d" % b)
            subs.append(("sub%d" % b, draw(straight(4))))
        elif kind == "reti":
            # return-from-interrupt used as a jump: RETI pops SR, then PC.  It is not the routine's final ret
            feats.add("reti")
            lines.append("  push #reti%d" % b)
            lines.append("  push %s" % draw(st.sampled_from(["r2", "#0x0000", "#0x0001", "#0x0104"])))
            lines.append("  reti")
            lines += ["  mov.w #0xdead, r11"]            # skipped
            lines.append("reti%d:" % b)
            lines += body
        elif kind == "callreti":
            # the same inside a called subroutine
            feats.add("reti")
            feats.add("call")
            lines.append("  call #sub%d" % b)
            subs.append(("sub%d" % b, ["  push #rsub%d" % b, "  push r2", "  reti", "  mov.w #0xdead, r11", "rsub%d:" % b] +
                         draw(straight(3))))
        else:
            feats.add("cond")
            j = draw(st.sampled_from(["jz", "jnz", "jc", "jnc", "jn", "jge", "jl", "jmp"]))
            lines.append("  cmp.w %s, r5" % draw(st.sampled_from(["r6", "#0", "#0x8000", "r7"])))
            lines.append("  %s skip%d" % (j, b))
            lines += body
            lines.append("skip%d:" % b)
    brk = draw(st.sampled_from([None, None, "byte", "byte", "word"]))
    bval = draw(st.integers(0, 255))
    if brk == "byte":
        lines.append("  mov.b #%d, &0x01f0" % bval)
        feats.add("break_io")
    elif brk == "word":
        lines.append("  mov.w #%d, &0x01f0" % bval)
        feats.add("break_io_word")
    lines.append("  ret")
    for name, body in subs:
        lines.append("%s:" % name)
        lines += [l for l in body if "@r4+" not in l]
        lines.append("  ret")
    lines += [".org 0xfffe", "  dw start"]
    return dict(lines=lines, feats=sorted(feats), brk=brk, bval=bval)


DUMP = re.compile(r" PC: 0x([0-9a-f]{4}),  SP: 0x([0-9a-f]{4}),  SR: 0x([0-9a-f]{4}),  CG: 0x([0-9a-f]{4}),")
REGV = re.compile(r"\br(\d+): 0x([0-9a-f]{4}),")
CYC = re.compile(r"(\d+) clock cycles have passed since last reset")


def model_run(image, brk_addr, limit=5000):
    m = ref.Mem(lambda a: 0)
    m.over = dict(image)
    regs = [0] * 16
    regs[0] = m.rd16(0xfffe)
    regs[1] = 0x800
    depth = 0
    cycles = 0
    for n in range(limit):
        mark = len(m.log)
        info = ref.step(regs, m)
        cycles += info.cycles
        if brk_addr is not None:
            hit = [v for a, v in m.log[mark:] if a == brk_addr]
            if hit:
                return dict(exit=hit[-1], regs=regs, cycles=cycles)
        if info.is_call:
            depth += 1
        if info.is_ret:
            depth -= 1
            if depth < 0:
                return dict(exit=None, regs=regs, cycles=cycles)
    raise ref.Undefined("program did not finish")


def run_program(s, tmp, prog, known, survey):
    src = "\n".join(prog["lines"]) + "\n"
    d = tempfile.mkdtemp(dir=tmp)
    try:
        with open(os.path.join(d, "p.asm"), "w") as f:
            f.write(src)
        rc, out, err, to = run_cli("naken_asm_san", ["-o", "p.hex", "p.asm"], cwd=d, timeout=60)
        if to:
            s.inconclusive += 1
            return
        if rc != 0:
            s.count("program_rejected_by_assembler")
            return
        image = formats.read_hex(open(os.path.join(d, "p.hex"), "rb").read())
        img = dict(image) if isinstance(image, dict) else dict(image[0])
        use_brk = prog["brk"] is not None
        try:
            exp = model_run(img, 0x01f0 if use_brk else None)
        except ref.Undefined as e:
            s.count("program_undefined_by_reference")
            return
        args = ["-msp430"] + (["-break_io", "0x01f0"] if use_brk else []) + ["-run", "p.hex"]
        rc, out, err, to = run_cli("naken_util_san", args, cwd=d, timeout=120)
        s.evaluations += 1
        if to:
            s.inconclusive += 1
            return
        s.count("programs")
        if set(prog["feats"]) & {"loop", "call", "cond"}:
            s.nt(("run",) + tuple(prog["feats"]))
        problems = []
        sanitizer = "ERROR: AddressSanitizer" in err or "runtime error:" in err
        if rc < 0 or (rc == 86 and sanitizer):          # 86 is also a legal -break_io exit status
            problems.append(("run_crash", "naken_util -run died: rc=%d %s" % (rc, err[-300:])))
        elif exp["exit"] is not None and prog["brk"] == "byte":
            if rc != exp["exit"]:
                problems.append(("break_io", "byte write of %d to the -break_io address: exit status %d" % (exp["exit"], rc)))
        elif exp["exit"] is not None and prog["brk"] == "word":
            if rc != exp["exit"]:
                problems.append(("break_io_word", "word write of %d to the -break_io address: exit status %d" % (exp["exit"], rc)))
        if exp["exit"] is None or (prog["brk"] == "word" and rc == 0 and not problems):
            pass
        if exp["exit"] is None:
            dumps = DUMP.findall(out)
            cyc = CYC.findall(out)
            if not dumps or not cyc:
                problems.append(("run_output", "no register dump in the -run output (rc=%d)" % rc))
            else:
                # last dump block
                pos = [m_.start() for m_ in DUMP.finditer(out)][-1]
                tail = out[pos:]
                got = {0: int(dumps[-1][0], 16), 1: int(dumps[-1][1], 16), 2: int(dumps[-1][2], 16)}
                for m_ in REGV.finditer(tail):
                    got.setdefault(int(m_.group(1)), int(m_.group(2), 16))
                for i in range(16):
                    if i == 3:
                        continue
                    if got.get(i) != exp["regs"][i]:
                        problems.append(("run_regs", "r%d after -run: expected 0x%04x got %s" % (
                            i, exp["regs"][i], "0x%04x" % got[i] if i in got else "missing")))
                        break
                if int(cyc[-1]) != exp["cycles"]:
                    problems.append(("run_cycles", "cycle count expected %d got %s" % (exp["cycles"], cyc[-1])))
                if rc != 0:
                    problems.append(("run_status", "exit status %d after a normal -run" % rc))
        for kind, detail in problems:
            if survey:
                s.notes.append("SURVEY\trun\t%s\t%s" % (kind, detail))
                continue
            fid = None
            for f in load_known(PROP):
                if f.get("match", {}).get("pred") == "run_kind" and kind in f["match"]["kinds"]:
                    fid = f["id"]
            if fid:
                s.known_hits.setdefault(fid, dict(kind=kind, detail=detail))
                s.excluded_known += 1
                continue
            raise Violation(dict(engine="c14", part="run", kind=kind, detail=detail, source=src, args=args,
                                 what="naken_util -run result differs from the reference execution"))
    finally:
        shutil.rmtree(d, ignore_errors=True)


def run(tier, seed, shard, nshards):
    s = Stats()
    known = Known()
    survey = os.environ.get("NV_SURVEY") == "1"
    w = Worker("c14", timeout=600)
    tmp = tempfile.mkdtemp(prefix="c14_", dir="/verif/build/tmp" if os.path.isdir("/verif/build/tmp") else None)
    try:
        run_steps(w, s, tier, seed, shard, nshards, known, survey)
        n = 70 if tier == "quick" else 250
        hyp_run(lambda p: run_program(s, tmp, p, known, survey), program(), n, shard_seed(seed, shard, "c14run"), s)
    finally:
        w.close()
        shutil.rmtree(tmp, ignore_errors=True)
    return s


def replay(payload):
    s = Stats()
    if payload.get("part") == "run":
        tmp = tempfile.mkdtemp(prefix="c14r_")
        try:
            try:
                run_program(s, tmp, dict(lines=payload["source"].split("\n"), feats=[], brk=(
                    "byte" if "-break_io" in payload["args"] and "mov.b" in payload["source"].split("ret")[0][-60:] else
                    "word" if "-break_io" in payload["args"] else None), bval=0), Known(), False)
            except Violation as v:
                return True, v.payload["detail"]
            return False, "passes"
        finally:
            shutil.rmtree(tmp, ignore_errors=True)
    w = Worker("c14r", timeout=120)
    try:
        case = payload["case"]
        fill = fill_fn(case["key"])
        m = ref.Mem(fill)
        m.over = {int(a): b for a, b in case["mem"]}
        regs = list(case["regs"])
        info = ref.step(regs, m)
        diffs = {a: v for a, v in m.writes.items() if ("mem:%d" % a) not in info.undef and v != m.initial(a)}
        exp = dict(regs=regs, diffs=diffs, undef=sorted(info.undef), kind=info.kind)
        case2 = dict(case, mem=[(int(a), b) for a, b in case["mem"]])
        r = w.call({"cmd": "simbatch", "cpu": "msp430", "cases": pack_cases([case2]), "regs": REGNAMES,
                    "space": "65536", "show": "0", "steps": "1", "timeout": "5"})
        got = parse_results(r["results"], 1)[0]
        d = compare(case2, exp, got)
        want = payload.get("difference")
        for k, detail in d:
            if want is None or k == want:
                return True, detail
        return False, "passes"
    finally:
        w.close()
