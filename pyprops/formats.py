"""Independent decoders for the object formats naken_asm writes, written from the
format specifications (Intel HEX, Motorola S-record, ELF gABI, WDC binary,
Microsoft UF2) - nothing here is derived from /repo/fileio."""
import struct


class FormatError(Exception):
    pass


# ------------------------------------------------------------------ Intel HEX
def read_hex(data):
    """returns (image dict addr->byte, info dict).  Raises FormatError on any
    malformed record (bad start, length, checksum, missing EOF, data after EOF)."""
    text = data.decode("latin-1")
    img = {}
    upper = 0
    seg = 0
    eof = False
    nrec = 0
    info = dict(records=0, ext_linear=0, ext_segment=0, start_linear=None, lengths=[])
    for ln, line in enumerate(text.split("\n")):
        line = line.rstrip("\r")
        if line == "":
            continue
        if eof:
            raise FormatError("line %d: data after EOF record" % (ln + 1))
        if line[0] != ":":
            raise FormatError("line %d: missing ':'" % (ln + 1))
        try:
            raw = bytes.fromhex(line[1:])
        except ValueError:
            raise FormatError("line %d: non-hex characters" % (ln + 1))
        if len(raw) < 5:
            raise FormatError("line %d: short record" % (ln + 1))
        cnt, addr, typ = raw[0], (raw[1] << 8) | raw[2], raw[3]
        if len(raw) != cnt + 5:
            raise FormatError("line %d: byte count %d does not match record length %d" % (ln + 1, cnt, len(raw) - 5))
        if sum(raw) & 0xff:
            raise FormatError("line %d: bad checksum" % (ln + 1))
        payload = raw[4:4 + cnt]
        info["records"] += 1
        if typ == 0:
            info["lengths"].append(cnt)
            for i, b in enumerate(payload):
                a = (upper + seg + ((addr + i) & 0xffff)) & 0xffffffff
                if a in img:
                    raise FormatError("line %d: address 0x%x written twice" % (ln + 1, a))
                img[a] = b
        elif typ == 1:
            if cnt != 0:
                raise FormatError("EOF record with data")
            eof = True
        elif typ == 2:
            if cnt != 2:
                raise FormatError("bad extended segment record")
            seg = ((payload[0] << 8) | payload[1]) << 4
            upper = 0
            info["ext_segment"] += 1
        elif typ == 4:
            if cnt != 2 or addr != 0:
                raise FormatError("bad extended linear address record")
            upper = ((payload[0] << 8) | payload[1]) << 16
            seg = 0
            info["ext_linear"] += 1
        elif typ == 5:
            if cnt != 4:
                raise FormatError("bad start linear address record")
            info["start_linear"] = struct.unpack(">I", payload)[0]
        elif typ == 3:
            if cnt != 4:
                raise FormatError("bad start segment address record")
        else:
            raise FormatError("line %d: unknown record type %d" % (ln + 1, typ))
    if not eof:
        raise FormatError("no EOF record")
    return img, info


# -------------------------------------------------------------------- S-record
def read_srec(data):
    text = data.decode("latin-1")
    img = {}
    info = dict(types=[], entry=None, header=None, data_type=None, term_type=None, lengths=[])
    done = False
    for ln, line in enumerate(text.split("\n")):
        line = line.rstrip("\r")
        if line == "":
            continue
        if done:
            raise FormatError("line %d: record after termination record" % (ln + 1))
        if line[0] != "S" or len(line) < 4 or line[1] not in "0123456789":
            raise FormatError("line %d: not an S-record" % (ln + 1))
        t = int(line[1])
        try:
            raw = bytes.fromhex(line[2:])
        except ValueError:
            raise FormatError("line %d: non-hex characters" % (ln + 1))
        cnt = raw[0]
        if len(raw) != cnt + 1:
            raise FormatError("line %d: count %d does not match length %d" % (ln + 1, cnt, len(raw) - 1))
        if (sum(raw) & 0xff) != 0xff:
            raise FormatError("line %d: bad checksum" % (ln + 1))
        alen = {0: 2, 1: 2, 2: 3, 3: 4, 5: 2, 6: 3, 7: 4, 8: 3, 9: 2}.get(t)
        if alen is None:
            raise FormatError("line %d: reserved type S%d" % (ln + 1, t))
        if cnt < alen + 1:
            raise FormatError("line %d: count too small" % (ln + 1))
        addr = int.from_bytes(raw[1:1 + alen], "big")
        payload = raw[1 + alen:-1]
        info["types"].append(t)
        if t == 0:
            info["header"] = payload
        elif t in (1, 2, 3):
            if info["data_type"] is None:
                info["data_type"] = t
            elif info["data_type"] != t:
                raise FormatError("line %d: mixed data record types" % (ln + 1))
            info["lengths"].append(len(payload))
            for i, b in enumerate(payload):
                a = addr + i
                if a >= (1 << (8 * alen)):
                    raise FormatError("line %d: address overflows the %d-byte address field" % (ln + 1, alen))
                if a in img:
                    raise FormatError("line %d: address 0x%x written twice" % (ln + 1, a))
                img[a] = b
        elif t in (7, 8, 9):
            if payload:
                raise FormatError("termination record with data")
            info["entry"] = addr
            info["term_type"] = t
            done = True
    if not done:
        raise FormatError("no termination record")
    if info["data_type"] is not None and info["term_type"] != 10 - info["data_type"]:
        raise FormatError("termination record S%d does not match data records S%d" % (info["term_type"], info["data_type"]))
    return img, info


# ------------------------------------------------------------------------- ELF
def read_elf(data):
    """returns dict(cls, endian, entry, type, machine, sections=[{name,type,addr,offset,size,link,info,entsize,data}],
    symbols=[{name,value,size,info,shndx}], phdrs=[...])"""
    if len(data) < 52 or data[:4] != b"\x7fELF":
        raise FormatError("not an ELF file")
    cls, dat = data[4], data[5]
    if cls not in (1, 2) or dat not in (1, 2):
        raise FormatError("bad EI_CLASS/EI_DATA")
    if data[6] != 1:
        raise FormatError("bad EI_VERSION")
    e = "<" if dat == 1 else ">"
    if cls == 1:
        (typ, mach, ver, entry, phoff, shoff, flags, ehsize, phentsize, phnum, shentsize, shnum,
         shstrndx) = struct.unpack_from(e + "HHIIIIIHHHHHH", data, 16)
    else:
        if len(data) < 64:
            raise FormatError("truncated ELF64 header")
        (typ, mach, ver, entry, phoff, shoff, flags, ehsize, phentsize, phnum, shentsize, shnum,
         shstrndx) = struct.unpack_from(e + "HHIQQQIHHHHHH", data, 16)
    if ver != 1:
        raise FormatError("bad e_version")
    want = 40 if cls == 1 else 64
    if shnum and shentsize != want:
        raise FormatError("e_shentsize %d != %d" % (shentsize, want))
    if shoff + shnum * shentsize > len(data):
        raise FormatError("section header table beyond end of file")
    secs = []
    for i in range(shnum):
        off = shoff + i * shentsize
        if cls == 1:
            (name, st, fl, addr, offset, size, link, info, align, entsize) = struct.unpack_from(e + "IIIIIIIIII", data, off)
        else:
            (name, st, fl, addr, offset, size, link, info, align, entsize) = struct.unpack_from(e + "IIQQQQIIQQ", data, off)
        if st not in (0, 8) and offset + size > len(data):
            raise FormatError("section %d beyond end of file" % i)
        secs.append(dict(name_off=name, type=st, flags=fl, addr=addr, offset=offset, size=size, link=link,
                         info=info, align=align, entsize=entsize,
                         data=data[offset:offset + size] if st not in (0, 8) else b""))
    if shnum:
        if shstrndx >= shnum:
            raise FormatError("e_shstrndx out of range")
        strs = secs[shstrndx]["data"]
        if secs[shstrndx]["type"] != 3:
            raise FormatError("e_shstrndx does not name a string table")
        for s in secs:
            s["name"] = cstr(strs, s["name_off"])
    syms = []
    for s in secs:
        if s["type"] != 2:
            continue
        ent = 16 if cls == 1 else 24
        if s["entsize"] != ent:
            raise FormatError("symtab sh_entsize %d != %d" % (s["entsize"], ent))
        if s["size"] % ent:
            raise FormatError("symtab size not a multiple of the entry size")
        if s["link"] >= shnum or secs[s["link"]]["type"] != 3:
            raise FormatError("symtab sh_link does not name a string table")
        st = secs[s["link"]]["data"]
        for i in range(s["size"] // ent):
            if cls == 1:
                (n, v, sz, inf, oth, shndx) = struct.unpack_from(e + "IIIBBH", s["data"], i * ent)
            else:
                (n, inf, oth, shndx, v, sz) = struct.unpack_from(e + "IBBHQQ", s["data"], i * ent)
            if n >= max(1, len(st)):
                raise FormatError("symbol %d: st_name outside the string table" % i)
            syms.append(dict(name=cstr(st, n), value=v, size=sz, info=inf, shndx=shndx))
    phdrs = []
    for i in range(phnum):
        off = phoff + i * phentsize
        if cls == 1:
            (pt, poff, va, pa, fsz, msz, pfl, pal) = struct.unpack_from(e + "IIIIIIII", data, off)
        else:
            (pt, pfl, poff, va, pa, fsz, msz, pal) = struct.unpack_from(e + "IIQQQQQQ", data, off)
        phdrs.append(dict(type=pt, offset=poff, vaddr=va, paddr=pa, filesz=fsz, memsz=msz))
    return dict(cls=cls, endian=dat, entry=entry, type=typ, machine=mach, sections=secs, symbols=syms,
                phdrs=phdrs, phnum=phnum)


def cstr(b, off):
    end = b.find(b"\0", off)
    if end < 0:
        raise FormatError("unterminated string at %d" % off)
    return b[off:end].decode("latin-1")


def elf_image(elf):
    """bytes carried by PROGBITS+ALLOC sections"""
    img = {}
    for s in elf["sections"]:
        if s["type"] == 1 and (s["flags"] & 2):
            for i, b in enumerate(s["data"]):
                img[s["addr"] + i] = b
    return img


# ------------------------------------------------------------------------ UF2
def read_uf2(data):
    if len(data) % 512:
        raise FormatError("file size not a multiple of 512")
    img = {}
    n = len(data) // 512
    info = dict(blocks=n, flags=set(), family=set(), payload_sizes=[])
    for i in range(n):
        blk = data[i * 512:(i + 1) * 512]
        m0, m1, flags, addr, size, no, total, fam = struct.unpack_from("<IIIIIIII", blk, 0)
        mend = struct.unpack_from("<I", blk, 508)[0]
        if m0 != 0x0A324655 or m1 != 0x9E5D5157 or mend != 0x0AB16F30:
            raise FormatError("block %d: bad magic" % i)
        if size > 476:
            raise FormatError("block %d: payload size %d > 476" % (i, size))
        if no != i:
            raise FormatError("block %d: blockNo %d" % (i, no))
        if total != n:
            raise FormatError("block %d: numBlocks %d != %d" % (i, total, n))
        info["flags"].add(flags)
        info["family"].add(fam)
        info["payload_sizes"].append(size)
        if flags & 1:
            continue            # not main flash
        for j in range(size):
            a = addr + j
            if a in img:
                raise FormatError("block %d: address 0x%x written twice" % (i, a))
            img[a] = blk[32 + j]
    return img, info


# ------------------------------------------------------------------------ WDC
def read_wdc(data):
    """WDC binary: 'Z', then blocks of 3-byte little endian address, 3-byte little endian length, data;
    a block with length 0 terminates."""
    if not data or data[0:1] != b"Z":
        raise FormatError("missing 'Z' signature")
    i = 1
    img = {}
    info = dict(blocks=0, terminated=False)
    while i < len(data):
        if i + 6 > len(data):
            raise FormatError("truncated block header")
        addr = data[i] | (data[i + 1] << 8) | (data[i + 2] << 16)
        ln = data[i + 3] | (data[i + 4] << 8) | (data[i + 5] << 16)
        i += 6
        if ln == 0:
            info["terminated"] = True
            if i != len(data):
                raise FormatError("data after terminating block")
            break
        if i + ln > len(data):
            raise FormatError("block data beyond end of file")
        for j in range(ln):
            a = addr + j
            if a in img:
                raise FormatError("address 0x%x written twice" % a)
            img[a] = data[i + j]
        i += ln
        info["blocks"] += 1
    if not info["terminated"]:
        raise FormatError("no terminating zero-length block")
    return img, info
