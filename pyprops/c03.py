"""C03 Every output format carries exactly the assembled memory image."""
import os, re, shutil
from hypothesis import strategies as st

from nvlib import (Worker, WorkerCrash, WorkerTimeout, Stats, Violation, hyp_run, shard_seed, load_known, run_cli)
import formats

PROP = "C03"
RULE = ("Hypothesis memory images: 1..10 disjoint segments (lengths 1..700, not multiples of 16), gaps from 1 byte to "
        "16 MiB, base addresses over the 32-bit space (64 KiB crossings, >16-bit, >24-bit, top page), optional "
        ".entry_point and .export, on CPUs covering bytes-per-address 1/2/4/8, both byte orders, the three S-record "
        "widths and ELF32/ELF64. The expected image is the generated segment list itself. Each of hex/srec/elf/wdc/"
        "uf2/bin is written by the sanitized file writers and decoded by independent readers (pyprops/formats.py): "
        "record formats must give exactly the expected address->byte map with valid lengths/checksums; contiguous "
        "containers must carry every expected byte and only zero padding inside [low, high+pad]; e_entry/S7-S9 and the "
        "ELF .symtab must carry entry point and exports. Files are loaded back with naken_util (print a-b) and must "
        "reproduce the image. non-trivial = >=2 segments or a 64 KiB crossing or an address > 0xffff; distinct key = "
        "(format, shape class, bpa, endian)")
ASSUMPTIONS = ["UF2 blocks of the RP2350-E10 'absolute' family 0xe48bff57 (one fixed block at 0x10ffff00 that the writer "
               "copies from the Pico SDK) are not program bytes", "a WDC terminating zero-length block and an S-record "
               "termination record without .entry_point are optional", "wdc is only judged for images below 2^24, "
               "total span per image <= 16 MiB (writers iterate over the span)"]

FT = dict(hex=0, bin=1, elf=2, srec=3, wdc=4, amiga=5, macho=7, uf2=8)
# name, bpa, endian, align, elf class
CPUS = [("msp430", 1, 0, 2, 1), ("msp430x", 1, 0, 2, 1), ("68000", 1, 1, 2, 1), ("avr8", 2, 0, 2, 1),
        ("propeller", 4, 0, 4, 1), ("ebpf", 8, 0, 4, 2), ("mips", 1, 1, 4, 1), ("z80", 1, 0, 1, 1),
        ("riscv64", 1, 0, 8, 2), ("65816", 1, 0, 1, 1), ("arm", 1, 0, 4, 1)]
BASES = [0, 0x10, 0xff00, 0xfff0, 0xffff, 0x10000, 0x1fff0, 0x12345, 0xfffff0, 0x1000000, 0x7fff0000,
         0x80000000, 0xfffe0000, 0xffff0000, 0xfffffd00]


@st.composite
def image(draw):
    cpu = draw(st.sampled_from(CPUS))
    bpa = cpu[1]
    # open finding C05-signed-byte-address: labels at byte addresses >= 2^31 are wrong when bpa > 1 (excluded here)
    base = draw(st.sampled_from(BASES if bpa == 1 else [b for b in BASES if b < 0x7e000000]))
    if draw(st.sampled_from([True, False, False])):
        # generated upper address word: any 16-bit value, or one whose extended-address record has checksum byte 0x00
        # (byte sum 0xfa: 02+00+00+04+hi+lo == 0 mod 256), the boundary of the record checksum arithmetic
        hi_b = draw(st.integers(0, 255 if bpa == 1 else 0x7d))
        lo_b = (0xfa - hi_b) & 0xff if draw(st.booleans()) else draw(st.integers(0, 255))
        base = (hi_b << 24) | (lo_b << 16) | draw(st.sampled_from([0, 0x10, 0xff00, 0xfff0]))
        base = min(base, 0xfffffd00)
    base -= base % bpa
    nseg = draw(st.sampled_from([1, 1, 2, 2, 3, 4, 6, 10]))
    big = draw(st.integers(0, 9)) == 0
    segs = []
    cur = base
    for i in range(nseg):
        gap = draw(st.sampled_from([0, 1, 2, 15, 16, 17, 255, 256, 4096, 65535, 65536, 70000] +
                                   ([1 << 20, (1 << 24) - 5000] if big else [])))
        if i == 0:
            gap = 0
        cur += gap
        cur += (-cur) % bpa
        ln = draw(st.sampled_from([1, 2, 3, 15, 16, 17, 31, 33, 100, 255, 256, 257, 700]))
        if big and i == 0 and draw(st.booleans()):
            ln = draw(st.sampled_from([65535, 65536, 65537, 70000, 131073]))     # longer than any writer's block
        if cur + ln > 0xfffffff0 or cur + ln - base > (1 << 24):
            break
        if ln > 1000:
            seed_ = draw(st.integers(1, 250))
            data = bytes(((k * seed_) ^ (k >> 8)) & 0xff for k in range(ln))
        else:
            data = draw(st.binary(min_size=ln, max_size=ln))
        if ln <= 1000 and draw(st.integers(0, 3)) == 0:
            data = bytes([draw(st.integers(0, 255))]) * ln
        segs.append((cur, data))
        cur += ln
        cur += 1 if (draw(st.booleans()) and i + 1 < nseg) else 0      # adjacent or separated
    if not segs:
        segs = [(base, b"\x5a")]
    order = draw(st.permutations(list(range(len(segs)))))
    entry = draw(st.sampled_from([None, None, "first", "mid"]))
    exports = sorted(set(draw(st.lists(st.integers(0, len(segs) - 1), max_size=3))))
    return (cpu, segs, order, entry, exports)


def render(case):
    cpu, segs, order, entry, exports = case
    bpa = cpu[1]
    lines = [".%s" % cpu[0]]
    for k in order:
        a, data = segs[k]
        lines.append(".org 0x%x" % (a // bpa))
        if k in exports:
            lines.append("sym_%d:" % k)
        if len(data) > 1000:
            lines.append(".binfile \"seg%d.bin\"" % k)
            continue
        for i in range(0, len(data), 16):
            lines.append(".db " + ", ".join("0x%02x" % b for b in data[i:i + 16]))
    for k in exports:
        lines.append(".export sym_%d" % k)
    ep = entry_value(case)
    if ep is not None:
        lines.append(".entry_point 0x%x" % (ep // bpa))
    return "\n".join(lines) + "\n"


def entry_value(case):
    cpu, segs, order, entry, exports = case
    if entry is None:
        return None
    a = segs[0][0] if entry == "first" else segs[len(segs) // 2][0]
    return a


def expected_image(segs):
    img = {}
    for a, data in segs:
        for i, b in enumerate(data):
            img[a + i] = b
    return img


def diff(exp, got, limit=6):
    out = []
    for a in sorted(set(exp) | set(got)):
        if exp.get(a) != got.get(a):
            out.append((hex(a), exp.get(a), got.get(a)))
            if len(out) >= limit:
                break
    return out


PRINT_ROW = re.compile(r"^0x([0-9a-f]+):((?: [0-9a-f]{2})+)")


class Checker:
    def __init__(self, stats, worker):
        self.s = stats
        self.w = worker
        self.known = load_known(PROP)
        self.cur_segs = []

    def known_match(self, kind, fmt, case):
        cpu, segs, order, entry, exports = case
        img = expected_image(segs)
        for f in self.known:
            m = f.get("match", {})
            if fmt != m.get("format") or kind not in m.get("kinds", [kind]):
                continue
            p = m.get("pred")
            if p == "srec_entry_gt_16bit" and entry_value(case) is not None and entry_value(case) > 0xffff:
                return f["id"]
            if p == "always":
                return f["id"]
        return None

    def fail(self, what, kind, fmt, case, src, expected, observed):
        fid = self.known_match(kind, fmt, case)
        if fid:
            self.s.known_hits.setdefault(fid, dict(format=fmt, src=src[:400], observed=observed))
            self.s.excluded_known += 1
            return False
        raise Violation(dict(what=what, kind=kind, format=fmt, cpu=case[0][0], src=src, expected=expected,
                             observed=observed, engine="c03", entry=entry_value(case),
                             exports={("sym_%d" % k): case[1][k][0] // case[0][1] for k in case[4]},
                             segs=[(a, d.hex()) for a, d in case[1]], cpuinfo=list(case[0])))

    def write(self, src, fmt):
        for k, (a, data) in enumerate(self.cur_segs):
            if len(data) > 1000:
                self.w.write_file("seg%d.bin" % k, data)
        name = "out." + fmt
        path = os.path.join(self.w.dir, name)
        if os.path.exists(path):
            os.unlink(path)
        try:
            r = self.w.asm(src, type=str(FT[fmt]), outfile=name)
        except (WorkerCrash, WorkerTimeout) as c:
            return c, None
        if not r.ok:
            return r, None
        try:
            return r, open(path, "rb").read()
        except OSError:
            return r, None

    def check_format(self, fmt, case, src):
        cpu, segs, order, entry, exports = case
        exp = expected_image(segs)
        low, high = min(exp), max(exp)
        self.cur_segs = segs
        r, data = self.write(src, fmt)
        if isinstance(r, WorkerCrash):
            return self.fail("writer crashed", "crash", fmt, case, src, "file", r.report[-1200:])
        if isinstance(r, WorkerTimeout):
            return self.fail("writer hung", "hang", fmt, case, src, "file", "timeout")
        if not r.ok:
            return self.fail("valid image program rejected", "rejected", fmt, case, src, "accepted",
                             "; ".join(r.diag())[:300])
        if r.image != exp:
            # the assembled image itself is wrong: C05's business, not a format finding
            self.s.count("skipped.assembled_image_differs")
            return False
        if data is None:
            return self.fail("no output file written", "no_file", fmt, case, src, "file", None)
        ep = entry_value(case)
        try:
            if fmt == "hex":
                got, info = formats.read_hex(data)
                if got != exp:
                    return self.fail("hex file does not decode to the image (addr, expected, file)", "wrong_image",
                                     fmt, case, src, None, diff(exp, got))
            elif fmt == "srec":
                got, info = read_srec_lenient(data)
                if got != exp:
                    return self.fail("srec file does not decode to the image (addr, expected, file)", "wrong_image",
                                     fmt, case, src, None, diff(exp, got))
                if ep is not None and info["entry"] != ep:
                    return self.fail("srec termination record does not carry the entry point", "wrong_entry",
                                     fmt, case, src, ep, info["entry"])
            elif fmt == "wdc":
                got, info = read_wdc_lenient(data)
                if got != exp:
                    return self.fail("wdc file does not decode to the image (addr, expected, file)", "wrong_image",
                                     fmt, case, src, None, diff(exp, got))
            elif fmt == "bin":
                if len(data) != high - low + 1:
                    return self.fail("bin length is not high-low+1", "wrong_length", fmt, case, src,
                                     high - low + 1, len(data))
                got = {low + i: b for i, b in enumerate(data)}
                bad = [(hex(a), exp.get(a, 0), b) for a, b in got.items() if b != exp.get(a, 0)][:6]
                if bad:
                    return self.fail("bin content differs (addr, expected, file)", "wrong_image", fmt, case, src,
                                     None, bad)
            elif fmt == "uf2":
                got, info = read_uf2_program(data)
                return self.contiguous(fmt, case, src, exp, got, low, high, 255)
            elif fmt == "elf":
                elf = formats.read_elf(data)
                if elf["cls"] != cpu[4]:
                    return self.fail("wrong ELF class", "wrong_header", fmt, case, src, cpu[4], elf["cls"])
                if elf["endian"] != (2 if cpu[2] else 1):
                    return self.fail("wrong EI_DATA", "wrong_header", fmt, case, src, cpu[2], elf["endian"])
                text = [s for s in elf["sections"] if s.get("name") == ".text"]
                if len(text) != 1 or text[0]["type"] != 1:
                    return self.fail("no single PROGBITS .text section", "wrong_sections", fmt, case, src, ".text",
                                     [s.get("name") for s in elf["sections"]])
                t = text[0]
                if t["addr"] != low:
                    return self.fail(".text sh_addr is not the lowest address", "wrong_addr", fmt, case, src, low,
                                     t["addr"])
                got = {t["addr"] + i: b for i, b in enumerate(t["data"])}
                if self.contiguous(fmt, case, src, exp, got, low, high, cpu[3] - 1) is False:
                    return False
                for ph in elf["phdrs"]:
                    if ph["type"] != 1:
                        continue
                    want_sz = high - low + 1
                    if ph["vaddr"] != low or ph["filesz"] < want_sz or ph["memsz"] < want_sz:
                        return self.fail("PT_LOAD program header does not cover the image", "wrong_phdr", fmt, case,
                                         src, dict(vaddr=low, filesz=want_sz), ph)
                    seg = data[ph["offset"]:ph["offset"] + ph["filesz"]]
                    bad = [(hex(low + i), exp.get(low + i, 0), b) for i, b in enumerate(seg[:want_sz])
                           if b != exp.get(low + i, 0)][:4]
                    if bad or len(seg) < want_sz:
                        return self.fail("bytes addressed by the PT_LOAD program header are not the image", "wrong_phdr",
                                         fmt, case, src, None, bad or "segment beyond end of file")
                if ep is not None and elf["entry"] != ep:
                    return self.fail("e_entry is not the entry point", "wrong_entry", fmt, case, src, ep, elf["entry"])
                want = sorted(("sym_%d" % k, segs[k][0] // cpu[1]) for k in exports)
                named = sorted((s["name"], s["value"]) for s in elf["symbols"] if (s["info"] >> 4) == 1 and s["name"])
                if named != want:
                    return self.fail("ELF .symtab does not list the exported symbols with their addresses",
                                     "wrong_symbols", fmt, case, src, want, named)
        except formats.FormatError as e:
            return self.fail("%s file is malformed: %s" % (fmt, e), "malformed", fmt, case, src, "well-formed file",
                             str(e))
        return True

    def contiguous(self, fmt, case, src, exp, got, low, high, pad):
        for a, b in exp.items():
            if got.get(a) != b:
                return self.fail("%s container misses/changes image bytes (addr, expected, file)" % fmt, "wrong_image",
                                 fmt, case, src, None, diff(exp, {k: v for k, v in got.items() if k in exp}))
        extra = [(hex(a), b) for a, b in got.items() if a not in exp and (b != 0 or a < low or a > high + pad)][:6]
        if extra:
            return self.fail("%s container carries other bytes (addr, byte)" % fmt, "extra_bytes", fmt, case, src,
                             "zero padding inside [low, high+%d]" % pad, extra)
        return True

    def check_reload(self, fmt, case, src):
        """load the written file with naken_util and print every segment +-16 bytes"""
        cpu, segs, order, entry, exports = case
        bpa = cpu[1]
        exp = expected_image(segs)
        path = os.path.join(self.w.dir, "out." + fmt)
        if not os.path.exists(path):
            return
        script = []
        want = {}
        for a, data in segs[:6]:
            lo = max(0, a - 16)
            lo -= lo % bpa
            hi = a + len(data) + 16
            hi += (-hi) % bpa
            if hi > 0xffffffff:
                continue
            script.append("print 0x%x-0x%x" % (lo // bpa, hi // bpa))
            for x in range(lo, hi):
                want[x] = exp.get(x, 0)
        script.append("quit")
        rc, out, err, to = run_cli("naken_util_san", ["-" + cpu[0], "out." + fmt], self.w.dir,
                                   stdin=("\n".join(script) + "\n").encode(), timeout=120)
        self.s.count("reload." + fmt)
        if to:
            self.s.inconclusive += 1
            return
        if rc != 0:
            kind = "reload_crash" if (rc is None or rc < 0 or rc == 86) else "reload_rejected"
            return self.fail("naken_util could not load the %s file written by naken_asm" % fmt, kind, fmt, case, src,
                             "loaded", dict(rc=rc, out=out[-300:], err=err[-600:]))
        got = {}
        for line in out.split("\n"):
            line = line.replace("stopped> ", "")
            m = PRINT_ROW.match(line.strip())
            if m:
                base = int(m.group(1), 16) * bpa
                for i, h in enumerate(m.group(2).split()[:16]):     # the ASCII column may start with hex digits
                    got.setdefault(base + i, int(h, 16))
        if fmt == "uf2":
            want = {a: b for a, b in want.items()}
        bad = [(hex(a), b, got.get(a)) for a, b in sorted(want.items()) if got.get(a) != b][:6]
        if bad:
            return self.fail("image shown by naken_util after loading the %s file differs (addr, expected, shown)" % fmt,
                             "reload_wrong", fmt, case, src, None, bad)


def read_srec_lenient(data):
    """formats.read_srec but: termination record optional, mixed S1/S2/S3 allowed"""
    try:
        return formats.read_srec(data)
    except formats.FormatError as e:
        msg = str(e)
        if "no termination record" in msg or "mixed data record" in msg or "does not match data records" in msg:
            return _srec_relaxed(data)
        raise


def _srec_relaxed(data):
    img = {}
    info = dict(entry=None, types=[])
    for ln, line in enumerate(data.decode("latin-1").split("\n")):
        line = line.rstrip("\r")
        if not line:
            continue
        if line[0] != "S":
            raise formats.FormatError("line %d: not an S-record" % (ln + 1))
        t = int(line[1])
        try:
            raw = bytes.fromhex(line[2:])
        except ValueError:
            raise formats.FormatError("line %d: non-hex characters / odd length" % (ln + 1))
        if len(raw) != raw[0] + 1:
            raise formats.FormatError("line %d: count does not match length" % (ln + 1))
        if (sum(raw) & 0xff) != 0xff:
            raise formats.FormatError("line %d: bad checksum" % (ln + 1))
        alen = {0: 2, 1: 2, 2: 3, 3: 4, 5: 2, 6: 3, 7: 4, 8: 3, 9: 2}[t]
        addr = int.from_bytes(raw[1:1 + alen], "big")
        payload = raw[1 + alen:-1]
        info["types"].append(t)
        if t in (1, 2, 3):
            for i, b in enumerate(payload):
                if addr + i in img:
                    raise formats.FormatError("address written twice")
                img[addr + i] = b
        elif t in (7, 8, 9):
            info["entry"] = addr
    return img, info


def read_wdc_lenient(data):
    try:
        return formats.read_wdc(data)
    except formats.FormatError as e:
        if "no terminating" in str(e):
            return formats.read_wdc(data + b"\0\0\0\0\0\0")
        raise


def read_uf2_program(data):
    """UF2 blocks except those of the RP2350-E10 absolute family; numbering checked per family"""
    import struct
    if len(data) % 512:
        raise formats.FormatError("file size not a multiple of 512")
    img = {}
    per_family = {}
    for i in range(len(data) // 512):
        blk = data[i * 512:(i + 1) * 512]
        m0, m1, flags, addr, size, no, total, fam = struct.unpack_from("<IIIIIIII", blk, 0)
        if m0 != 0x0A324655 or m1 != 0x9E5D5157 or struct.unpack_from("<I", blk, 508)[0] != 0x0AB16F30:
            raise formats.FormatError("block %d: bad magic" % i)
        if size > 476:
            raise formats.FormatError("block %d: payload size %d" % (i, size))
        seq = per_family.setdefault(fam, [])
        if no != len(seq):
            raise formats.FormatError("block %d: blockNo %d, expected %d within family %08x" % (i, no, len(seq), fam))
        seq.append(total)
        if fam == 0xe48bff57 or (flags & 1):
            continue
        for j in range(size):
            if addr + j in img:
                raise formats.FormatError("block %d: address written twice" % i)
            img[addr + j] = blk[32 + j]
    for fam, seq in per_family.items():
        if any(t != len(seq) for t in seq) and fam != 0xe48bff57:
            raise formats.FormatError("numBlocks %s does not match the %d blocks of family %08x" % (seq[:3], len(seq), fam))
    return img, per_family


def shape_class(case):
    cpu, segs, order, entry, exports = case
    exp_addrs = [a for a, d in segs]
    pages = set(a >> 16 for a, d in segs) | set((a + len(d) - 1) >> 16 for a, d in segs)
    return (min(len(segs), 4), len(pages) > 1, max(exp_addrs) > 0xffff, max(exp_addrs) > 0xffffff,
            entry is not None, bool(exports))


def run(tier, seed, shard, nshards):
    s = Stats()
    w = Worker("c03", timeout=120)
    ck = Checker(s, w)

    def test(case):
        cpu, segs, order, entry, exports = case
        src = render(case)
        s.evaluations += 1
        exp = expected_image(segs)
        low, high = min(exp), max(exp)
        span = high - low
        sc = shape_class(case)
        nt = len(segs) >= 2 or sc[1] or sc[2]
        reload_fmt = ["hex", "srec", "elf", "wdc", "uf2"][s.evaluations % 5]
        for fmt in ("hex", "srec", "wdc", "bin", "elf", "uf2"):
            if fmt == "srec" and cpu[0] in ("msp430x",) and high > 0xffffff:
                s.count("skipped.srec24_beyond_24bit")      # outside the 24-bit S2 records this CPU is given
                continue
            if fmt == "wdc" and high > 0xffffff:
                s.count("skipped.wdc_beyond_24bit")
                continue
            if fmt in ("bin", "elf", "uf2") and span > (2 << 20):
                s.count("skipped.container_span>2MiB")
                continue
            ok = ck.check_format(fmt, case, src)
            s.count("checked." + fmt)
            if nt and ok:
                s.nt((fmt,) + sc + (cpu[1], cpu[2]))
            if ok and fmt == reload_fmt and span <= (2 << 20):
                ck.check_reload(fmt, case, src)
        if span <= (2 << 20):
            for fmt in ("amiga", "macho"):       # not decoded (the statement names six formats): crash freedom only
                r, data = ck.write(src, fmt)
                s.count("crashfree." + fmt)
                if isinstance(r, (WorkerCrash, WorkerTimeout)):
                    ck.fail("%s writer crashed or hung" % fmt, "crash", fmt, case, src, "file",
                            getattr(r, "report", "timeout")[-1200:])
        s.count("cpu.%s" % cpu[0])
        if sc[1]:
            s.count("class.64KiB_crossing")
        if sc[3]:
            s.count("class.addr>24bit")
        if len(s.samples) < 4 and len(segs) >= 3:
            s.sample(dict(cpu=cpu[0], segments=[(hex(a), len(d)) for a, d in segs], entry=entry, exports=exports))

    try:
        n = 250 if tier == "quick" else 4000
        hyp_run(test, image(), n, shard_seed(seed, shard, "c03"), s)
    finally:
        w.close()
    return s


def replay(payload):
    s = Stats()
    w = Worker("c03r", timeout=120)
    ck = Checker(s, w)
    ck.known = []
    try:
        segs = [(a, bytes.fromhex(d)) for a, d in payload["segs"]]
        cpu = tuple(payload["cpuinfo"])
        exports = sorted(int(k[4:]) for k in payload["exports"])
        ep = payload.get("entry")
        entry = None
        if ep is not None:
            entry = "first" if ep == segs[0][0] else "mid"
        case = (cpu, segs, list(range(len(segs))), entry, exports)
        src = payload["src"]
        try:
            ok = ck.check_format(payload["format"], case, src)
            if ok and payload["kind"].startswith("reload"):
                ck.check_reload(payload["format"], case, src)
        except Violation as v:
            return True, v.payload
        return False, "passes"
    finally:
        w.close()
