"""C09 Macros, defines, equ, repeat and include are transparent text abstractions."""
import random
from hypothesis import strategies as st

from nvlib import (Worker, WorkerCrash, WorkerTimeout, Stats, Violation, hyp_run, shard_seed, load_known)
import progs

PROP = "C09"
RULE = ("metamorphic: Hypothesis builds an abstract program (object/function-like .define/#define, 'NAME equ text', "
        ".equ, .macro/.endm with 0..12 typed parameters (numbers, parenthesised expressions, registers, quoted "
        "strings containing commas, label names) invoked 1..5 times before/after/on label lines, macros invoking "
        "macros (depth<=4; thorough: chains up to 100), .repeat n bodies, .include of generated files) over "
        "data directives and instruction texts of 7 CPUs, and expands it by hand in Python; image and global label "
        "addresses of the abstract program must equal those of the expanded program (.repeat n = n copies of the "
        "body). non-trivial = a parameterised macro invoked >=2 times, or macro nesting >=2, or include+macro, or "
        "repeat; distinct key = (structure shape, cpu)")
ASSUMPTIONS = ["parameter names never occur inside quoted strings of a macro body (substitution there is not documented)",
               ".repeat bodies hold only position-independent statements so 'n copies of the bytes' = 'n copies of the text'",
               "argument texts contain commas only inside quotes or parentheses"]

CPUS = ["msp430", "z80", "mips", "avr8", "68000", "6502", "riscv"]
REGS = {"msp430": ["r4", "r5", "r9", "r12", "r15"], "z80": ["a", "b", "c", "d", "e", "h", "l"],
        "avr8": ["r16", "r17", "r20", "r31"], "mips": ["$5", "$8", "$t1", "$s0"], "68000": ["d0", "d3", "d7"],
        "6502": [], "riscv": ["x5", "x10", "a0", "t1"]}
# CPU specific statement templates using one numeric parameter {n} and registers {r} {q}
CPU_TPL = {"msp430": ["mov.w #{n}, {r}", "add.w {r}, {q}", "cmp.w #{n}, {r}", "mov.w {n}({r}), {q}"],
           "z80": ["ld {r}, {n}", "add a, {n}", "ld {r}, {q}"],
           "avr8": ["ldi {r}, {n}", "mov {r}, {q}"],
           "mips": ["addiu {r}, {q}, {n}", "ori {r}, {q}, {n}"],
           "68000": ["moveq #{n}, {r}", "add.w {r}, {q}"],
           "6502": ["lda #{n}", "adc #{n}"],
           "riscv": ["addi {r}, {q}, {n}", "andi {r}, {q}, {n}"]}

_pools = {}


def pool(cpu, worker):
    if cpu not in _pools:
        _pools[cpu] = progs.validated_pool(worker, cpu, random.Random(hash(cpu) & 0xffff), want=30)
    return _pools[cpu]


# parts: ("t", text) ("p", index) ("d", name) ("e", name) ("f", name, [parts...])
class G:
    def __init__(self, cpu, pool):
        self.cpu = cpu
        self.pool = pool
        self.n = 0
        self.defines = {}     # name -> text
        self.fdefines = {}    # name -> (nparams, body parts using ("p", i))
        self.equs = {}        # name -> (text, form)
        self.macros = {}      # name -> (ptypes, body nodes)
        self.order = []       # definition order
        self.labels = 0

    def fresh(self, prefix):
        self.n += 1
        return "%s%d" % (prefix, self.n)

    def fresh_label(self):
        self.labels += 1
        return "lab_%d" % self.labels


@st.composite
def num_parts(draw, g, ptypes, small=True):
    """parts of a numeric operand (value 0..100 so that it fits any byte-sized field)"""
    c = draw(st.integers(0, 9))
    nums = [i for i, t in enumerate(ptypes) if t == "num"]
    if c <= 2 and nums:
        return [("p", draw(st.sampled_from(nums)))]
    if c == 3 and g.defines:
        return [("d", draw(st.sampled_from(sorted(g.defines))))]
    if c == 4 and g.equs:
        return [("e", draw(st.sampled_from(sorted(g.equs))))]
    if c == 5 and g.fdefines:
        name = draw(st.sampled_from(sorted(g.fdefines)))
        n = g.fdefines[name][0]
        return [("f", name, [[("t", str(draw(st.integers(0, 5))))] for _ in range(n)])]
    return [("t", str(draw(st.integers(0, 20))))]


@st.composite
def stmt(draw, g, ptypes):
    """one statement as a list of parts"""
    c = draw(st.integers(0, 11))
    strs = [i for i, t in enumerate(ptypes) if t == "str"]
    regs = [i for i, t in enumerate(ptypes) if t == "reg"]
    labs = [i for i, t in enumerate(ptypes) if t == "labref"]
    if c <= 1:
        a = draw(num_parts(g, ptypes))
        b = draw(num_parts(g, ptypes))
        return [("t", ".db ")] + a + [("t", ", ")] + b
    if c == 2:
        return [("t", ".dw ")] + draw(num_parts(g, ptypes)) + [("t", " + 1")]
    if c == 3:
        return [("t", ".dc32 ")] + draw(num_parts(g, ptypes)) + [("t", " * 3, ")] + draw(num_parts(g, ptypes))
    if c == 4 and strs:
        return [("t", draw(st.sampled_from([".ascii ", ".db ", ".asciiz "]))), ("p", draw(st.sampled_from(strs)))]
    if c == 5 and labs:
        return [("t", ".dc32 "), ("p", draw(st.sampled_from(labs)))]
    if c <= 7 and g.cpu in CPU_TPL:
        tpl = draw(st.sampled_from(CPU_TPL[g.cpu]))
        parts = []
        rest = tpl
        while rest:
            i = rest.find("{")
            if i < 0:
                parts.append(("t", rest))
                break
            if i:
                parts.append(("t", rest[:i]))
            key = rest[i + 1]
            rest = rest[i + 3:]
            if key == "n":
                parts += draw(num_parts(g, ptypes))
            else:
                if regs and draw(st.booleans()):
                    parts.append(("p", draw(st.sampled_from(regs))))
                else:
                    parts.append(("t", draw(st.sampled_from(REGS[g.cpu]))))
        return parts
    if g.pool:
        return [("t", draw(st.sampled_from(g.pool)))]
    return [("t", ".db 7")]


@st.composite
def arg(draw, g, t, outer_ptypes):
    """argument parts for a parameter of type t, possibly forwarding an outer parameter"""
    same = [i for i, ot in enumerate(outer_ptypes) if ot == t]
    if same and draw(st.integers(0, 2)) == 0:
        return [("p", draw(st.sampled_from(same)))]
    if t == "num":
        c = draw(st.integers(0, 4))
        if c == 0:
            return [("t", "(%d+%d)" % (draw(st.integers(0, 5)), draw(st.integers(0, 5))))]
        if c == 1:
            return [("t", "0x%x" % draw(st.integers(0, 20)))]
        if c == 2 and g.defines:
            return [("d", draw(st.sampled_from(sorted(g.defines))))]
        return [("t", str(draw(st.integers(0, 20))))]
    if t == "str":
        s = draw(st.text(alphabet="abcXYZ 019,;()+", min_size=0, max_size=8))
        return [("t", "\"" + s + "\"")]
    if t == "reg":
        return [("t", draw(st.sampled_from(REGS[g.cpu] or ["0"])))]
    if t in ("labdef", "labref"):
        return [("t", g.fresh_label()), ("L",)]
    raise ValueError(t)


@st.composite
def invoke(draw, g, outer_ptypes, allow_labels):
    cands = [n for n in g.macros if allow_labels or not any(t.startswith("lab") for t in g.macros[n][0])]
    if not cands:
        return None
    name = draw(st.sampled_from(sorted(cands)))
    ptypes = g.macros[name][0]
    args = []
    lab = None
    for t in ptypes:
        if t.startswith("lab"):
            if lab is None:
                lab = g.fresh_label()
            args.append([("t", lab)])
        else:
            args.append(draw(arg(g, t, outer_ptypes)))
    return ("invoke", name, args)


@st.composite
def define_macro(draw, g):
    name = g.fresh("MAC")
    leaf = draw(st.booleans()) or not g.macros
    np_ = draw(st.sampled_from([0, 1, 1, 2, 2, 3, 4, 9, 12]))
    types = ["num", "num", "str", "reg"] if REGS[g.cpu] else ["num", "num", "str"]
    ptypes = [draw(st.sampled_from(types)) for _ in range(np_)]
    if leaf and draw(st.integers(0, 3)) == 0:
        # one label parameter, defined in the body and referenced
        ptypes.append("labdef")
        ptypes.append("labref")        # same label name is passed for both: definition + reference
    body = []
    nb = draw(st.integers(1, 5))
    for _ in range(nb):
        if not leaf and draw(st.integers(0, 2)) == 0:
            iv = draw(invoke(g, ptypes, allow_labels=False))
            if iv:
                body.append(iv)
                continue
        body.append(("stmt", draw(stmt(g, ptypes))))
    if "labdef" in ptypes:
        pos = draw(st.integers(0, len(body)))
        body.insert(pos, ("plabel", ptypes.index("labdef")))
    g.macros[name] = (ptypes, body)
    g.order.append(("macro", name))


@st.composite
def program(draw, pools):
    cpu = draw(st.sampled_from(CPUS))
    g = G(cpu, pools.get(cpu, []))
    ndefs = draw(st.integers(0, 6))
    for _ in range(ndefs):
        c = draw(st.integers(0, 5))
        if c == 0:
            name = g.fresh("DEF")
            g.defines[name] = draw(st.sampled_from(["5", "0x11", "(2+3)", "7 ", "1+2"]))
            g.order.append(("define", name, draw(st.sampled_from([".define", "#define"]))))
        elif c == 1:
            name = g.fresh("EQV")
            form = draw(st.sampled_from(["equ", "equ", ".equ"]))
            g.equs[name] = (draw(st.sampled_from(["9", "0x12", "4+4"])) if form == "equ" else
                            draw(st.sampled_from(["9", "0x12", "13"])), form)
            g.order.append(("equ", name))
        elif c == 2:
            name = g.fresh("FUN")
            n = draw(st.integers(1, 3))
            body = [("t", "(")]
            for i in range(n):
                body += [("t", "(" if i == 0 else "+("), ("p", i), ("t", ")*%d" % (i + 1))]
            body.append(("t", ")"))
            g.fdefines[name] = (n, body)
            g.order.append(("fdefine", name, draw(st.sampled_from([".define", "#define"]))))
        else:
            draw(define_macro(g))
    main = []
    nm = draw(st.integers(1, 10))
    for _ in range(nm):
        c = draw(st.integers(0, 9))
        if c <= 3 and g.macros:
            iv = draw(invoke(g, [], allow_labels=True))
            if iv:
                if draw(st.integers(0, 3)) == 0:
                    main.append(("label", g.fresh_label(), True))     # label on the same line as the invocation
                main.append(iv)
                continue
        if c == 4:
            main.append(("label", g.fresh_label(), False))
        elif c == 5:
            n = draw(st.sampled_from([1, 2, 3, 5, 17]))
            body = []
            for _ in range(draw(st.integers(1, 3))):
                s = draw(stmt(g, []))
                txt = "".join(p[1] for p in s if p[0] == "t")
                if all(p[0] in ("t", "d", "e", "f") for p in s) and (s[0][1].startswith(".") or
                                                                        progs.position_independent(txt)):
                    body.append(("stmt", s))
            if body:
                main.append(("repeat", n, body))
        elif c == 6:
            inc = []
            for _ in range(draw(st.integers(1, 4))):
                if g.macros and draw(st.booleans()):
                    iv = draw(invoke(g, [], allow_labels=True))
                    if iv:
                        inc.append(iv)
                        continue
                inc.append(("stmt", draw(stmt(g, []))))
            main.append(("include", g.fresh("inc") + ".inc", inc))
        else:
            main.append(("stmt", draw(stmt(g, []))))
    return g, main


# ---------------------------------------------------------------- rendering
def parts_abstract(g, parts, pnames):
    out = ""
    for p in parts:
        k = p[0]
        if k == "t":
            out += p[1]
        elif k == "p":
            out += pnames[p[1]]
        elif k in ("d", "e"):
            out += p[1]
        elif k == "f":
            out += "%s(%s)" % (p[1], ", ".join(parts_abstract(g, a, pnames) for a in p[2]))
    return out


def parts_expanded(g, parts, pvals):
    out = ""
    for p in parts:
        k = p[0]
        if k == "t":
            out += p[1]
        elif k == "p":
            out += pvals[p[1]]
        elif k == "d":
            out += g.defines[p[1]]
        elif k == "e":
            out += g.equs[p[1]][0]
        elif k == "f":
            n, body = g.fdefines[p[1]]
            args = [parts_expanded(g, a, pvals) for a in p[2]]
            out += parts_expanded(g, body, args)
    return out


def pnames_of(name, ptypes):
    return ["%s_p%d" % (name.lower(), i) for i in range(len(ptypes))]


def render_abstract(g, main, files):
    lines = [".%s" % progs.CPU_FILES[g.cpu]]
    for d in g.order:
        if d[0] == "define":
            lines.append("%s %s %s" % (d[2], d[1], g.defines[d[1]]))
        elif d[0] == "equ":
            text, form = g.equs[d[1]]
            lines.append("%s equ %s" % (d[1], text) if form == "equ" else ".equ %s = %s" % (d[1], text))
        elif d[0] == "fdefine":
            n, body = g.fdefines[d[1]]
            pn = ["fa%d" % i for i in range(n)]
            lines.append("%s %s(%s) %s" % (d[2], d[1], ",".join(pn), parts_abstract(g, body, pn)))
        elif d[0] == "macro":
            ptypes, body = g.macros[d[1]]
            pn = pnames_of(d[1], ptypes)
            lines.append(".macro %s%s" % (d[1], "(%s)" % ", ".join(pn) if pn else ""))
            lines.extend(nodes_abstract(g, body, pn, files))
            lines.append(".endm")
    lines.extend(nodes_abstract(g, main, [], files))
    return "\n".join(lines) + "\n"


def nodes_abstract(g, nodes, pn, files):
    out = []
    pending_label = None
    for nd in nodes:
        k = nd[0]
        pre = ""
        if pending_label:
            pre = pending_label + ": "
            pending_label = None
        if k == "stmt":
            out.append(pre + "  " + parts_abstract(g, nd[1], pn))
        elif k == "label":
            if nd[2]:
                pending_label = nd[1]
            else:
                out.append("%s:" % nd[1])
        elif k == "plabel":
            out.append("%s:" % pn[nd[1]])
        elif k == "invoke":
            args = [parts_abstract(g, [p for p in a if p[0] != "L"], pn) for a in nd[2]]
            out.append(pre + "  %s%s" % (nd[1], "(%s)" % ", ".join(args) if args else ""))
        elif k == "repeat":
            # the copy made by .repeat starts at the location counter of the directive: keep it aligned so that no
            # padding of the first instruction is part of the copied range (known finding C09-repeat-pad otherwise)
            out.append("  .align 64")
            out.append(".repeat %d" % nd[1])
            out.extend(nodes_abstract(g, nd[2], pn, files))
            out.append(".endr")
        elif k == "include":
            files.append((nd[1], "\n".join(nodes_abstract(g, nd[2], pn, files)) + "\n"))
            out.append(".include \"%s\"" % nd[1])
    if pending_label:
        out.append("%s:" % pending_label)
    return out


def nodes_expanded(g, nodes, pvals, depth=0, info=None):
    out = []
    for nd in nodes:
        k = nd[0]
        if k == "stmt":
            out.append("  " + parts_expanded(g, nd[1], pvals))
        elif k == "label":
            out.append("%s:" % nd[1])
        elif k == "plabel":
            out.append("%s:" % pvals[nd[1]])
        elif k == "invoke":
            ptypes, body = g.macros[nd[1]]
            args = [parts_expanded(g, [p for p in a if p[0] != "L"], pvals) for a in nd[2]]
            if info is not None:
                info["maxnest"] = max(info["maxnest"], depth + 1)
                info["invocations"][nd[1]] = info["invocations"].get(nd[1], 0) + 1
            out.extend(nodes_expanded(g, body, args, depth + 1, info))
        elif k == "repeat":
            body = nodes_expanded(g, nd[2], pvals, depth, info)
            out.append("  .align 64")
            for _ in range(nd[1]):
                out.extend(body)
            if info is not None:
                info["repeat"] = True
        elif k == "include":
            if info is not None:
                info["include"] = True
                if any(x[0] == "invoke" for x in nd[2]):
                    info["include_macro"] = True
            out.extend(nodes_expanded(g, nd[2], pvals, depth, info))
    return out


def shape(g, nodes):
    s = []
    for nd in nodes:
        if nd[0] == "invoke":
            s.append(("i", len(g.macros[nd[1]][0]), shape(g, g.macros[nd[1]][1])))
        elif nd[0] in ("repeat", "include"):
            s.append((nd[0][0], shape(g, nd[2])))
    return tuple(s)


class Checker:
    def __init__(self, stats, worker):
        self.s = stats
        self.w = worker
        self.known = load_known(PROP)

    def asm(self, src, files):
        for n, d in files:
            self.w.write_file(n, d)
        try:
            return self.w.asm(src, flags="F")
        except (WorkerCrash, WorkerTimeout) as c:
            return c

    def compare(self, abstract, files, expanded, allow_capacity=False):
        ra = self.asm(abstract, files)
        re_ = self.asm(expanded, [])
        base = dict(abstract=abstract, expanded=expanded, files=files, engine="c09", allow_capacity=allow_capacity)
        if isinstance(re_, (WorkerCrash, WorkerTimeout)) or not re_.ok:
            # the hand-expanded program itself is not accepted: generator produced an invalid program
            self.s.count("invalid_expanded")
            return None
        if isinstance(ra, WorkerCrash):
            raise Violation(dict(base, what="assembler crashed on the abstract program", kind="crash",
                                 observed=ra.report[-1200:]))
        if isinstance(ra, WorkerTimeout):
            raise Violation(dict(base, what="assembler hung on the abstract program", kind="hang", observed="timeout"))
        if not ra.ok and allow_capacity and any("too long" in d or "Internal" in d or "exhausted" in d
                                                 for d in ra.diag()):
            self.s.count("capacity_error_accepted")
            return None
        if not ra.ok:
            raise Violation(dict(base, what="abstract program rejected but its hand expansion is accepted",
                                 kind="rejected", observed="; ".join(ra.diag())[:400]))
        if ra.image != re_.image:
            diff = [(hex(a), re_.image.get(a), ra.image.get(a)) for a in sorted(set(ra.image) | set(re_.image))
                    if ra.image.get(a) != re_.image.get(a)][:8]
            raise Violation(dict(base, what="image of the abstract program differs from its hand expansion "
                                            "(addr, expanded, abstract)", kind="wrong_image", observed=diff))
        sa = {n: a for (n, sc), a in ra.symdict(2).items() if sc == 0}
        se = {n: a for (n, sc), a in re_.symdict(2).items() if sc == 0}
        if sa != se:
            raise Violation(dict(base, what="label addresses differ", kind="wrong_symbol",
                                 observed=dict(abstract=sa, expanded=se)))
        return ra


def deep_chain(depth, variant, cpu="msp430"):
    """macro chain nested `depth` deep.  variant 'plain': no parameters; 'fwd': one parameter forwarded
    unchanged; 'grow': the argument grows by '+1' per level (the expansion buffer is a documented-less
    capacity: a clean capacity error is accepted there, a crash is not)"""
    lines = [".%s" % cpu]
    exp = [".%s" % cpu]
    if variant == "plain":
        lines += [".macro CH0", "  .db 77", ".endm"]
        for i in range(1, depth):
            lines += [".macro CH%d" % i, "  .db %d" % (i % 200), "  CH%d" % (i - 1), ".endm"]
        lines.append("  CH%d" % (depth - 1))
        for i in range(depth - 1, 0, -1):
            exp.append("  .db %d" % (i % 200))
        exp.append("  .db 77")
    else:
        step = "+1" if variant == "grow" else ""
        lines += [".macro CH0(a)", "  .db a", ".endm"]
        for i in range(1, depth):
            lines += [".macro CH%d(a)" % i, "  .db %d" % (i % 200), "  CH%d(a%s)" % (i - 1, step), ".endm"]
        lines.append("  CH%d(1)" % (depth - 1))
        for i in range(depth - 1, 0, -1):
            exp.append("  .db %d" % (i % 200))
        exp.append("  .db 1" + step * (depth - 1))
    return "\n".join(lines) + "\n", "\n".join(exp) + "\n"


def many_invocations(n, cpu, body_len):
    """n top-level invocations of one parameterised macro (cumulative expansion far beyond every buffer)"""
    pad = ", ".join(str((i * 7) % 250) for i in range(body_len))
    lines = [".%s" % cpu, ".macro MANY(a, b)", "  .db a, b, %s" % pad, "  .dw a + b", ".endm"]
    exp = [".%s" % cpu]
    for i in range(n):
        if i % 50 == 0:
            lines.append("mlab%d:" % i)
            exp.append("mlab%d:" % i)
        lines.append("  MANY(%d, (%d+1))" % (i % 200, i % 50))
        exp.append("  .db %d, (%d+1), %s" % (i % 200, i % 50, pad))
        exp.append("  .dw %d + (%d+1)" % (i % 200, i % 50))
    return "\n".join(lines) + "\n", "\n".join(exp) + "\n"


def bulk_definitions(n, cpu, rnd):
    """n definitions of every kind (equ, .define, #define with a parameter, .macro) - far more than one 32 KiB
    definition pool holds - followed by uses of early, middle and late ones, against the hand-substituted program"""
    lines = [".%s" % cpu]
    exp = [".%s" % cpu]
    kinds = []
    for i in range(n):
        k = rnd.choice(["equ", "equ", "define", "fdefine", "macro"])
        kinds.append(k)
        name = "bulk_%s_name_%05d" % (k, i)
        if k == "equ":
            lines.append("%s equ %d" % (name, 1000 + i))
        elif k == "define":
            lines.append(".define %s (%d + 1)" % (name, i))
        elif k == "fdefine":
            lines.append("#define %s(p) (p + %d)" % (name, i))
        else:
            lines += [".macro %s(q)" % name, "  .dw q, %d" % (i & 0x7fff), ".endm"]
    picks = sorted(set([0, 1, n // 2, n - 2, n - 1] + [rnd.randrange(n) for _ in range(60)]))
    for j, i in enumerate(picks):
        k = kinds[i]
        name = "bulk_%s_name_%05d" % (k, i)
        if j % 10 == 0:
            lines.append("blab%d:" % j)
            exp.append("blab%d:" % j)
        if k == "equ":
            lines.append("  .dw %s" % name)
            exp.append("  .dw %d" % (1000 + i))
        elif k == "define":
            lines.append("  .dw %s * 2" % name)
            exp.append("  .dw (%d + 1) * 2" % i)
        elif k == "fdefine":
            lines.append("  .dw %s(7)" % name)
            exp.append("  .dw (7 + %d)" % i)
        else:
            lines.append("  %s(%d)" % (name, j))
            exp.append("  .dw %d, %d" % (j, i & 0x7fff))
    return "\n".join(lines) + "\n", "\n".join(exp) + "\n"


def run(tier, seed, shard, nshards):
    s = Stats()
    w = Worker("c09")
    ck = Checker(s, w)
    pools = {c: pool(c, w) for c in CPUS}

    def test(case):
        g, main = case
        s.evaluations += 1
        files = []
        abstract = render_abstract(g, main, files)
        info = dict(maxnest=0, invocations={}, repeat=False, include=False, include_macro=False)
        expanded = ".%s\n" % progs.CPU_FILES[g.cpu] + "\n".join(nodes_expanded(g, main, [], 0, info)) + "\n"
        s.count("cpu." + g.cpu)
        s.count("nest=%d" % info["maxnest"])
        param_multi = any(n >= 2 and g.macros[m][0] for m, n in info["invocations"].items())
        if param_multi:
            s.count("class.param_macro_invoked>=2")
        if info["repeat"]:
            s.count("class.repeat")
        if info["include"]:
            s.count("class.include")
        if info["include_macro"]:
            s.count("class.include+macro")
        if g.defines or g.fdefines or g.equs:
            s.count("class.define/equ")
        if any(len(g.macros[m][0]) >= 9 for m in info["invocations"]):
            s.count("class.params>=9")
        if param_multi or info["maxnest"] >= 2 or info["include_macro"] or info["repeat"]:
            s.nt((shape(g, main), g.cpu))
            if len(s.samples) < 4 and info["maxnest"] >= 2:
                s.sample(dict(abstract=abstract, files=files, expanded=expanded))
        ck.compare(abstract, files, expanded)

    try:
        # nesting near the documented limit (128 nested macros) and many invocations
        try:
            fam = []
            for d in ([2, 5, 20, 60, 120] if tier == "quick" else [2, 5, 20, 60, 100, 120, 126, 127]):
                fam += [("chain", d, "plain"), ("chain", d, "fwd"), ("chain", d, "grow")]
            for n_, cpu_, bl in ([(40, "msp430", 40), (700, "msp430", 1), (300, "avr8", 3)] if tier == "quick" else
                                 [(40, "msp430", 40), (700, "msp430", 1), (300, "avr8", 3), (3000, "z80", 2),
                                  (150, "mips", 30)]):
                fam.append(("many", n_, cpu_, bl))
            for n_, cpu_ in ([(1500, "msp430"), (2500, "z80")] if tier == "quick" else
                             [(1500, "msp430"), (2500, "z80"), (8000, "68000")]):
                fam.append(("bulk", n_, cpu_))
            for i, f in enumerate(fam):
                if i % nshards != shard:
                    continue
                s.evaluations += 1
                if f[0] == "chain":
                    a, e = deep_chain(f[1], f[2])
                    s.count("deep_chain." + f[2])
                    s.nt(("deep_chain", f[1], f[2]))
                    ck.compare(a, [], e, allow_capacity=(f[2] == "grow"))
                elif f[0] == "bulk":
                    import random as _r
                    a, e = bulk_definitions(f[1], f[2], _r.Random(shard_seed(seed, i, "c09bulk")))
                    s.count("bulk_definitions")
                    s.nt(f)
                    ck.compare(a, [], e)
                else:
                    a, e = many_invocations(f[1], f[2], f[3])
                    s.count("many_invocations")
                    s.nt(f)
                    ck.compare(a, [], e)
        except Violation as v:
            s.violations.append(v.payload)
        n = 1500 if tier == "quick" else 10000
        hyp_run(test, program(pools), n, shard_seed(seed, shard, "c09"), s)
    finally:
        w.close()
    return s


def selfcheck(m, tier):
    bad = []
    ev = max(1, m["evaluations"])
    if m["classes"].get("invalid_expanded", 0) > 0.15 * ev:
        bad.append("more than 15%% of hand-expanded programs are rejected (%d of %d)" % (
            m["classes"].get("invalid_expanded", 0), ev))
    for c in ("class.param_macro_invoked>=2", "class.repeat", "class.include+macro"):
        if m["classes"].get(c, 0) < 5:
            bad.append("class %s nearly empty" % c)
    return bad


def replay(payload):
    s = Stats()
    w = Worker("c09r")
    ck = Checker(s, w)
    try:
        try:
            ck.compare(payload["abstract"], [tuple(f) for f in payload["files"]], payload["expanded"],
                       allow_capacity=payload.get("allow_capacity", False))
        except Violation as v:
            return True, v.payload
        return False, "passes now"
    finally:
        w.close()
