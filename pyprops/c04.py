"""C04 Constant expressions evaluate to their arithmetic value."""
import itertools, os, random
from hypothesis import strategies as st

from nvlib import (Worker, WorkerCrash, WorkerTimeout, Stats, Violation, hyp_run, shard_seed,
                   load_known, run_cli, new_scratch)
import exprmodel as em
import shutil

PROP = "C04"
RULE = ("generated: (a) every sequence of 1..4 binary operators from {* / % + - << >> & ^ |} over 3 operand "
        "tuples (exhaustive), (b) Hypothesis expression ASTs (depth<=5, unary -/~ chains, parentheses, random "
        "spacing, 64-bit boundary operands, every documented literal spelling) emitted through .dc64/.dc32 on "
        "little/big endian CPUs and compared with an independent reference evaluator, (c) valueless expressions "
        "(zero divisor literal/computed, malformed) that must be rejected with a diagnostic, (d) operand contexts: "
        "Hypothesis expressions steered to a target value t (by appending -K/+K computed from the reference value) and "
        "written into .org/.resb/.set/.db/.dw lists/equ and instruction immediates with encodings known from the manuals "
        "(msp430 #imm/&abs/x(Rn), 68000 move.l #, riscv addi, z80 ld hl, 6502 lda #, arm mov #, avr8 ldi, 8051 mov a,#): the "
        "image must be the one the value t denotes; and into the numeric hole of tests/comparison instruction templates "
        "of every CPU with a corpus: same bytes as the same statement with the plain literal t. non-trivial = "
        ">=3 distinct precedence levels in one expression, or a boundary operand (>=2^31), or valueless; "
        "distinct key = (operator sequences per parenthesis level, class)")

CPUS = [("msp430", 0, False), ("68000", 1, True), ("6502", 0, True), ("mips", 1, False), ("ebpf", 0, False)]

BOUND = [0, 1, 2, 3, 7, 8, 0x7f, 0x80, 0xff, 0x100, 0x7fff, 0x8000, 0xffff, 0x10000,
         0x7fffffff, 0x80000000, 0xffffffff, 0x100000000, 0x7fffffffffffffff,
         0x8000000000000000, 0xffffffffffffffff, 0xfffffffffffffffe]


# ------------------------------------------------------------------ literals
def under(draw, s, start=1):
    """insert '_' separators after position `start` (never leading, never doubled)"""
    if len(s) - start < 2 or not draw(st.booleans()):
        return s
    pos = draw(st.integers(start, len(s) - 1))
    return s[:pos] + "_" + s[pos:]


PLAIN_CHARS = [c for c in range(32, 127) if chr(c) not in "'\\"]


@st.composite
def literal(draw, dollar_hex, small=False):
    if small:
        v = draw(st.integers(0, 63))
    else:
        v = draw(st.one_of(st.sampled_from(BOUND), st.integers(0, 70), st.integers(0, (1 << 64) - 1),
                           st.integers(0, 0xffff), st.sampled_from(PLAIN_CHARS)))
    kinds = ["hex0x", "hexh", "bin0b", "binb", "octq", "oct0"]
    if v < (1 << 63):
        kinds += ["dec", "dec", "dec_"]
    if v in PLAIN_CHARS or v in (10, 9, 13):
        kinds += ["char", "char"]
    if dollar_hex:
        kinds.append("dollar")
    k = draw(st.sampled_from(kinds))
    if k == "dec":
        t = str(v)
    elif k == "dec_":
        t = under(draw, str(v))
        k = "underscore"
    elif k == "hex0x":
        h = ("%x" if draw(st.booleans()) else "%X") % v
        t = "0x" + under(draw, h)
    elif k == "hexh":
        h = "%x" % v
        if not h[0].isdigit():
            h = "0" + h
        if h[:2] in ("0b", "0x") or (len(h) > 1 and h[0] == "0" and h[1] in "bx"):
            h = "0" + h          # "0b1h" would read as a (broken) 0b literal; "00b1h" is plain hex
        t = under(draw, h) + "h"
    elif k == "bin0b":
        t = "0b" + under(draw, bin(v)[2:])
    elif k == "binb":
        b = bin(v)[2:]
        if v == 0:
            b = "00"
        t = under(draw, b) + "b"
    elif k == "octq":
        t = under(draw, "%o" % v) + "q"
    elif k == "oct0":
        if v == 0:
            t, k = "0", "dec"
        else:
            t = "0" + under(draw, "%o" % v, 0 if False else 1)
    elif k == "char":
        t = {10: "'\\n'", 9: "'\\t'", 13: "'\\r'"}.get(v, "'%s'" % chr(v))
    elif k == "dollar":
        t = "$" + "%x" % v
    return ("lit", v, t, k)


@st.composite
def term(draw, depth, dollar_hex, small=False):
    un = draw(st.sampled_from(["", "", "", "", "-", "~", "-~", "~-", "~~", "--"]))
    if small and draw(st.integers(0, 9)) < 8:
        return ("", draw(literal(dollar_hex, small=True)))
    if depth > 0 and draw(st.integers(0, 9)) < 3:
        return (un, ("par", draw(expr(depth - 1, dollar_hex))))
    return (un, draw(literal(dollar_hex)))


@st.composite
def expr(draw, depth, dollar_hex):
    n = draw(st.sampled_from([0, 1, 1, 2, 2, 3, 3, 4, 5, 6, 7, 9]))
    e = [draw(term(depth, dollar_hex))]
    for _ in range(n):
        op = draw(st.sampled_from(em.OPS))
        e.append(op)
        e.append(draw(term(depth, dollar_hex, small=op in ("<<", ">>"))))
    return e


@st.composite
def spaced(draw, e):
    seed = draw(st.integers(0, 1 << 30))
    rnd = random.Random(seed)       # derived from a drawn value: replayable and shrinkable
    def sp():
        return rnd.choice(["", " ", " ", "  ", "\t"])
    return em.render(e, sp)


@st.composite
def batch(draw):
    cpu = draw(st.sampled_from(CPUS))
    width = draw(st.sampled_from([64, 64, 64, 32]))
    n = draw(st.integers(1, 10))
    items = []
    for _ in range(n):
        e = draw(expr(draw(st.integers(0, 4)), cpu[2]))
        items.append((e, draw(spaced(e))))
    return (cpu, width, items)


# ------------------------------------------------------------------- oracle
def lit_kinds(e, acc):
    for i in range(0, len(e), 2):
        un, atom = e[i]
        if atom[0] == "lit":
            acc.add(atom[3])
        else:
            lit_kinds(atom[1], acc)
    return acc


def has_boundary(e):
    for i in range(0, len(e), 2):
        un, atom = e[i]
        if atom[0] == "lit":
            if atom[1] >= 0x7fffffff:
                return True
        elif has_boundary(atom[1]):
            return True
    return False


def expected_bytes(v, width, endian):
    n = width // 8
    b = (v & ((1 << width) - 1)).to_bytes(n, "little")
    return b if endian == 0 else b[::-1]


class Checker:
    def __init__(self, stats, worker):
        self.s = stats
        self.w = worker
        self.known = load_known(PROP)

    def model(self, e):
        try:
            return ("val", em.eval_expr(e))
        except em.NoValue:
            return ("novalue", None)
        except em.Ambiguous:
            return ("ambiguous", None)

    def known_match(self, kind, e, text):
        """return finding id if this failing case is a listed known finding"""
        for f in self.known:
            m = f.get("match", {})
            if m.get("kind") != kind:
                continue
            if m.get("pred") == "three_level_tightening":
                if e is not None and any(three_tightening(seq) for seq in em.ops_of(e)):
                    return f["id"]
            elif m.get("pred") == "text_equals":
                if text.strip() == m.get("text"):
                    return f["id"]
            elif m.get("pred") == "binary_literal_ge_2_31":
                if e is not None and wide_binary_literal(e):
                    return f["id"]
            elif m.get("pred") == "unclosed_paren":
                if text.count("(") > text.count(")"):
                    return f["id"]
        return None

    def assemble(self, cpu, width, texts):
        src = ".%s\n" % cpu[0] + "".join(".dc%d %s\n" % (width, t) for t in texts)
        try:
            return src, self.w.asm(src)
        except WorkerCrash as c:
            return src, c
        except WorkerTimeout as c:
            return src, c

    def fail(self, what, cpu, width, e, text, expected, observed, kind):
        fid = self.known_match(kind, e, text) if e is not None or text else None
        if fid:
            self.s.known_hits.setdefault(fid, dict(cpu=cpu[0], width=width, text=text, expected=expected,
                                                   observed=observed))
            self.s.excluded_known += 1
            return
        raise Violation(dict(what=what, kind=kind, cpu=cpu[0], width=width, text=text,
                             expected=expected, observed=observed, engine="c04"))

    def check_valid(self, cpu, width, items):
        """items: list of (expr, text, value).  One assembly; each must yield its bytes."""
        texts = [t for _, t, _ in items]
        src, r = self.assemble(cpu, width, texts)
        if isinstance(r, (WorkerCrash, WorkerTimeout)) or not r.ok:
            if len(items) > 1:
                for it in items:
                    self.check_valid(cpu, width, [it])
                return
            e, t, v = items[0]
            if isinstance(r, WorkerCrash):
                self.fail("assembler crashed on a valid expression", cpu, width, e, t, v,
                          r.report[-1500:], "crash")
            elif isinstance(r, WorkerTimeout):
                self.fail("assembler hung on a valid expression", cpu, width, e, t, v, "timeout", "hang")
            else:
                self.fail("valid expression rejected", cpu, width, e, t, v,
                          "; ".join(r.diag())[:300], "rejected")
            return
        n = width // 8
        for i, (e, t, v) in enumerate(items):
            got = r.bytes_at(i * n, n)
            exp = expected_bytes(v, width, cpu[1])
            if got != exp:
                self.fail("expression value differs from reference", cpu, width, e, t,
                          dict(value=v, bytes=exp.hex()), dict(bytes=got.hex()), "wrong_value")

    def check_novalue(self, cpu, width, e, text, why):
        src, r = self.assemble(cpu, width, [text])
        if isinstance(r, WorkerCrash):
            self.fail("valueless expression (%s) crashed the assembler" % why, cpu, width, e, text,
                      "rejected with a diagnostic", r.report[-1500:], "crash_novalue")
        elif isinstance(r, WorkerTimeout):
            self.fail("valueless expression (%s) hung the assembler" % why, cpu, width, e, text,
                      "rejected with a diagnostic", "timeout", "hang")
        elif r.ok:
            self.fail("valueless expression (%s) accepted" % why, cpu, width, e, text,
                      "rejected with a diagnostic",
                      dict(bytes=r.bytes_at(0, width // 8).hex()), "accepted_novalue")
        elif not r.diag():
            self.fail("valueless expression (%s) rejected without a diagnostic" % why, cpu, width, e, text,
                      "a diagnostic", r.out[-300:], "no_diag")


def three_tightening(seq):
    """operator run in which the 3-slot evaluator reduces the middle pair too early:
    o[i] looser than o[j] looser than o[k] for some i<j<k (superset of the failing shapes)"""
    p = [em.PREC[o] for o in seq]
    for i in range(len(p)):
        for j in range(i + 1, len(p)):
            if p[j] < p[i]:
                for k in range(j + 1, len(p)):
                    if p[k] < p[j]:
                        return True
    return False


def wide_binary_literal(e):
    for i in range(0, len(e), 2):
        un, atom = e[i]
        if atom[0] == "lit":
            if atom[3] in ("bin0b", "binb") and atom[1] >= (1 << 31):
                return True
        elif wide_binary_literal(atom[1]):
            return True
    return False


# ------------------------------------------------------------------- parts
TUPLES = [(29, 11, 5, 3, 2), (2, 3, 5, 7, 1), (1000003, 6, 4, 9, 3)]


def part_exhaustive(ck, shard, nshards, tier):
    s = ck.s
    seqs = []
    for n in range(1, 5):
        seqs.extend(itertools.product(em.OPS, repeat=n))
    idx = 0
    pending = []
    def flush():
        if pending:
            ck.check_valid(CPUS[0], 64, list(pending))
            del pending[:]
    for seq in seqs:
        for ti, tup in enumerate(TUPLES):
            idx += 1
            if idx % nshards != shard:
                continue
            e = [("", ("lit", tup[0], str(tup[0]), "dec"))]
            for k, op in enumerate(seq):
                e.append(op)
                e.append(("", ("lit", tup[k + 1], str(tup[k + 1]), "dec")))
            kind, v = ck.model(e)
            s.evaluations += 1
            text = em.render(e)
            if kind == "ambiguous":
                s.count("exhaustive.ambiguous_skipped")
                continue
            if kind == "novalue":
                ck.check_novalue(CPUS[0], 64, e, text, "zero divisor")
                continue
            s.count("exhaustive.checked")
            if len(set(em.PREC[o] for o in seq)) >= 3:
                s.nt(("seq",) + seq)
            if len(seq) == 4 and ti == 0 and idx % 997 == 0:
                s.sample(dict(part="exhaustive", text=text, value=v))
            pending.append((e, text, v))
            if len(pending) >= 150:
                flush()
    flush()


LEVEL_OPS = {1: ["*", "/", "%"], 2: ["+", "-"], 3: ["<<", ">>"], 4: ["&"], 5: ["^"], 6: ["|"]}


def part_levels(ck, shard, nshards):
    """every ordering of k distinct precedence levels (k = 2..6), every operator choice per level for the
    orderings of 5 and 6 levels that are monotone, one representative otherwise: exhaustive over orderings"""
    s = ck.s
    seqs = set()
    for k in range(2, 7):
        for levels in itertools.permutations(range(1, 7), k):
            mono = list(levels) == sorted(levels) or list(levels) == sorted(levels, reverse=True)
            if mono:
                for ops in itertools.product(*[LEVEL_OPS[l] for l in levels]):
                    seqs.add(ops)
            else:
                seqs.add(tuple(LEVEL_OPS[l][0] for l in levels))
                seqs.add(tuple(LEVEL_OPS[l][-1] for l in levels))
    operands = [(256, 17, 51, 7, 1, 1, 2), (1000003, 6, 4, 9, 3, 2, 1), (29, 11, 5, 3, 2, 1, 1)]
    pending = []
    idx = 0
    for seq in sorted(seqs):
        for tup in operands:
            idx += 1
            if idx % nshards != shard:
                continue
            e = [("", ("lit", tup[0], str(tup[0]), "dec"))]
            for k, op in enumerate(seq):
                e.append(op)
                e.append(("", ("lit", tup[k + 1], str(tup[k + 1]), "dec")))
            kind, v = ck.model(e)
            s.evaluations += 1
            if kind != "val":
                s.count("levels.skipped_" + kind)
                continue
            s.count("levels.checked")
            s.count("levels.len=%d" % len(seq))
            s.nt(("lev",) + seq)
            pending.append((e, em.render(e), v))
            if len(pending) >= 150:
                ck.check_valid(CPUS[0], 64, list(pending))
                del pending[:]
    if pending:
        ck.check_valid(CPUS[0], 64, list(pending))


MALFORMED = ["1 +", "1 + * 2", "( 1 + 2", "()", "1 2", "3 * ( 4 + )", "<< 2", "5 %", "1 + ( 2 * ( 3 + 4 )",
             "1 +\t/ 2", "~", "-", "( )", "2 * * 3", "4 & | 1", "1 << << 2", "((((1))) + ", "1 + ()"]


def part_novalue_fixed(ck, shard, nshards):
    s = ck.s
    cases = []
    for d in ["5 / 0", "5 % 0", "0 / 0", "7 / (3 - 3)", "7 % (2 * 0)", "1 + 6 / (4 & 3)", "9 / ~-1",
              "1 / (0x10 >> 5)", "(8 / 0) * 0", "3 % (1 - 1) + 2", "0x7fffffffffffffff / 0", "-1 % 0"]:
        cases.append((d, "zero divisor"))
    for m in MALFORMED:
        cases.append((m, "malformed"))
    for i, (t, why) in enumerate(cases):
        if i % nshards != shard:
            continue
        for cpu in (CPUS[0], CPUS[1]):
            for width in (64, 32):
                s.evaluations += 1
                s.count("valueless." + why.replace(" ", "_"))
                s.nt(("valueless", t))
                ck.check_novalue(cpu, width, None, t, why)
        s.sample(dict(part="valueless", text=t, why=why))
        # end to end through the CLI: exit status 1, diagnostic, no output file
        d = new_scratch("c04cli")
        try:
            with open(os.path.join(d, "t.asm"), "w") as f:
                f.write(".msp430\n.dc64 %s\n" % t)
            rc, out, err, to = run_cli("naken_asm_san", ["-o", "t.hex", "t.asm"], d, timeout=60)
            s.evaluations += 1
            s.count("valueless.cli")
            obs = dict(rc=rc, timeout=to, file=os.path.exists(os.path.join(d, "t.hex")), out=out[-300:],
                       err=err[-800:])
            if to:
                s.inconclusive += 1
            elif rc != 1 or obs["file"]:
                kind = "cli_signal" if (rc is None or rc < 0 or rc == 86) else "cli_accepted"
                ck.fail("CLI: valueless expression (%s) not rejected cleanly" % why, CPUS[0], 64, None, t,
                        "exit status 1, no output file", obs, kind if kind == "cli_signal" else
                        ("accepted_novalue" if rc == 0 else "cli_status"))
        finally:
            shutil.rmtree(d, ignore_errors=True)


def part_hyp(ck, seed, n_examples):
    s = ck.s

    def test(case):
        cpu, width, items = case
        valid = []
        for e, text in items:
            s.evaluations += 1
            kind, v = ck.model(e)
            for k in lit_kinds(e, set()):
                s.count("literal." + k)
            s.count("cpu." + cpu[0])
            s.count("width.%d" % width)
            if kind == "ambiguous":
                s.count("hyp.ambiguous_skipped")
                continue
            levels = em.prec_levels(e)
            if kind == "novalue":
                s.count("hyp.novalue")
                s.nt(("novalue", tuple(em.ops_of(e))))
                ck.check_novalue(cpu, width, e, text, "zero divisor (computed)")
                continue
            s.count("hyp.valid")
            s.count("hyp.levels=%d" % len(levels))
            if len(levels) >= 3 or has_boundary(e):
                s.nt((tuple(em.ops_of(e)), has_boundary(e)))
            if len(levels) >= 3:
                s.sample(dict(part="hypothesis", cpu=cpu[0], width=width, text=text, value=v), limit=8)
            valid.append((e, text, v))
        if valid:
            ck.check_valid(cpu, width, valid)

    hyp_run(test, batch(), n_examples, seed, s)


def part_ctx(ck, seed, shard, nshards, tier):
    """operand contexts (pyprops/c04ctx.py): direct oracles and literal-vs-expression differential"""
    import c04ctx, c02, progs
    s = ck.s
    cx = c04ctx.Ctx(ck)
    try:
        cx.selftest()
    except Violation as v:
        s.violations.append(v.payload)
        return
    for name, why in cx.disabled.items():
        s.notes.append("direct context %s not used: %s" % (name, why))
    hyp_run(cx.check_direct, c04ctx.direct_case(), 250 if tier == "quick" else 6000, seed, s)
    cpus = [c for i, c in enumerate(c02.CPUS) if i % nshards == shard]
    cache = {}

    def tpls(cpu):
        if cpu not in cache:
            cache[cpu] = cx.diff_templates(cpu, 40 if tier == "quick" else 400)
        return cache[cpu]

    @st.composite
    def diff_case(draw):
        cpu = draw(st.sampled_from(cpus))
        ti = draw(st.integers(0, 10000))
        ex = [(draw(c04ctx.ctx_expr(True, True)), draw(st.integers(0, 1 << 30))) for _ in range(draw(st.integers(2, 5)))]
        return (cpu, ti, ex)

    def test(case):
        cpu, ti, ex = case
        tl = tpls(cpu)
        if not tl:
            return
        t, span, key = tl[ti % len(tl)]
        cx.check_diff(cpu, progs.CPU_FILES.get(cpu, cpu), t, span, key, ex)

    if cpus:
        hyp_run(test, diff_case(), 60 if tier == "quick" else 2500, seed + 1, s)


def run(tier, seed, shard, nshards):
    s = Stats()
    w = Worker("c04")
    ck = Checker(s, w)
    try:
        try:
            part_exhaustive(ck, shard, nshards, tier)
        except Violation as v:
            s.violations.append(v.payload)
        try:
            part_levels(ck, shard, nshards)
        except Violation as v:
            s.violations.append(v.payload)
        try:
            part_novalue_fixed(ck, shard, nshards)
        except Violation as v:
            s.violations.append(v.payload)
        n = 400 if tier == "quick" else 12000
        part_hyp(ck, shard_seed(seed, shard, "c04"), n)
        part_ctx(ck, shard_seed(seed, shard, "c04ctx"), shard, nshards, tier)
    finally:
        w.close()
    return s


def replay(payload):
    """re-execute one saved case without Hypothesis; returns (still_fails, detail)"""
    s = Stats()
    w = Worker("c04r")
    ck = Checker(s, w)
    ck.known = []
    cpu = ([c for c in CPUS if c[0] == payload["cpu"]] or [CPUS[0]])[0]
    try:
        kind = payload["kind"]
        if payload.get("part") == "ctx_direct":
            import c04ctx
            c04ctx.Ctx(ck).replay_direct(payload)
        elif payload.get("part") == "ctx_diff":
            import c04ctx
            c04ctx.Ctx(ck).replay_diff(payload)
        elif kind in ("wrong_value", "rejected", "crash", "hang"):
            v = payload["expected"]["value"] if isinstance(payload["expected"], dict) else payload["expected"]
            ck.check_valid(cpu, payload["width"], [(None, payload["text"], v)])
        else:
            ck.check_novalue(cpu, payload["width"], None, payload["text"], "replay")
        return False, "passes now"
    except Violation as v:
        return True, v.payload
    finally:
        w.close()
