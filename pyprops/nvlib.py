"""Shared infrastructure for the Hypothesis-driven properties (engine B):
worker client, sharded runner, evidence, known findings, replay files."""
import os, sys, json, struct, subprocess, hashlib, time, tempfile, shutil, signal, traceback
import multiprocessing

VERIF = os.path.dirname(os.path.dirname(os.path.abspath(__file__)))
sys.path.insert(0, VERIF)
import nvbuild

NSHARDS = int(os.environ.get("NV_SHARDS", "16"))


def build_dir():
    return nvbuild.build_dir()


def scratch_root():
    d = os.path.join(build_dir(), "scratch")
    os.makedirs(d, exist_ok=True)
    return d


def new_scratch(tag):
    return tempfile.mkdtemp(prefix=tag + "-", dir=scratch_root())


def san_env():
    e = dict(os.environ)
    e["ASAN_OPTIONS"] = "detect_leaks=0:abort_on_error=0:exitcode=86:allocator_may_return_null=1:handle_abort=1"
    e["UBSAN_OPTIONS"] = "print_stacktrace=1:halt_on_error=1:exitcode=86"
    return e


class WorkerCrash(Exception):
    def __init__(self, report, request):
        Exception.__init__(self, "worker crashed")
        self.report = report
        self.request = request


class WorkerTimeout(Exception):
    def __init__(self, request):
        Exception.__init__(self, "worker timeout")
        self.request = request


def _pack(d):
    out = [struct.pack("<I", len(d))]
    for k, v in d.items():
        k = k.encode() if isinstance(k, str) else k
        if isinstance(v, str):
            v = v.encode("latin-1")
        elif isinstance(v, int):
            v = str(v).encode()
        out.append(struct.pack("<I", len(k)))
        out.append(k)
        out.append(struct.pack("<I", len(v)))
        out.append(v)
    return b"".join(out)


class Worker:
    """One nvserve process.  Restarted transparently after a crash."""

    def __init__(self, tag="w", timeout=20):
        self.dir = new_scratch(tag)
        self.timeout = timeout
        self.p = None
        self.errpath = os.path.join(self.dir, "stderr.txt")
        self.crashes = 0

    def start(self):
        self.err = open(self.errpath, "wb")
        self.p = subprocess.Popen([os.path.join(build_dir(), "nvserve"), self.dir],
                                  stdin=subprocess.PIPE, stdout=subprocess.PIPE,
                                  stderr=self.err, env=san_env(), cwd=self.dir)

    def stop(self):
        if self.p is not None:
            try:
                self.p.kill()
                self.p.wait()
            except Exception:
                pass
            self.p = None
            try:
                self.err.close()
            except Exception:
                pass

    def close(self):
        self.stop()
        shutil.rmtree(self.dir, ignore_errors=True)

    def _read(self, n):
        buf = b""
        while len(buf) < n:
            c = self.p.stdout.read(n - len(buf))
            if not c:
                raise EOFError()
            buf += c
        return buf

    def call(self, req):
        if self.p is None:
            self.start()
        def on_alarm(signum, frame):
            raise TimeoutError()
        old = signal.signal(signal.SIGALRM, on_alarm)
        signal.alarm(self.timeout)
        try:
            self.p.stdin.write(_pack(req))
            self.p.stdin.flush()
            n = struct.unpack("<I", self._read(4))[0]
            out = {}
            for _ in range(n):
                kl = struct.unpack("<I", self._read(4))[0]
                k = self._read(kl).decode()
                vl = struct.unpack("<I", self._read(4))[0]
                out[k] = self._read(vl)
            return out
        except TimeoutError:
            self.stop()
            raise WorkerTimeout(req)
        except (EOFError, BrokenPipeError, OSError):
            signal.alarm(0)
            try:
                self.p.wait(timeout=10)
            except Exception:
                pass
            self.stop()
            self.crashes += 1
            try:
                rep = open(self.errpath, "rb").read().decode(errors="replace")
            except OSError:
                rep = ""
            raise WorkerCrash(rep, req)
        finally:
            signal.alarm(0)
            signal.signal(signal.SIGALRM, old)

    def write_file(self, name, data):
        if isinstance(data, str):
            data = data.encode("latin-1")
        with open(os.path.join(self.dir, name), "wb") as f:
            f.write(data)

    # ---- high level
    def asm(self, src, flags="", **kw):
        req = {"cmd": "asm", "src": src, "flags": flags}
        req.update(kw)
        return AsmResult(self.call(req))

    def dis(self, cpu, addr, data, count=1):
        r = self.call({"cmd": "dis", "cpu": cpu, "addr": str(addr), "bytes": bytes(data), "count": str(count)})
        out = []
        for line in r.get("dis", b"").decode("latin-1").split("\n"):
            if not line:
                continue
            a, n, t = line.split("\t", 2)
            out.append((int(a), int(n), t))
        return out

    def cpus(self):
        r = self.call({"cmd": "cpus"})
        out = []
        for line in r["cpus"].decode().split("\n"):
            if line:
                n, unit, align, endian, sim, srec, typ = line.split("\t")
                out.append(dict(name=n, unit=int(unit), align=int(align), endian=int(endian),
                                sim=sim == "1", srec=int(srec), type=int(typ)))
        return out


class AsmResult:
    def __init__(self, r):
        self.phase = int(r["phase"])
        self.exit_code = int(r["exit_code"])
        self.exit_called = r["exit_called"] == b"1"
        self.out = r["out"].decode("latin-1")
        self.listing = r["list"].decode("latin-1")
        self.low = int(r["low"])
        self.high = int(r["high"])
        self.endian = int(r["endian"])
        self.bpa = int(r["bpa"])
        self.cpu = int(r["cpu"])
        self.icount = int(r["icount"])
        self.read8_bad = int(r.get("r8bad", b"-1") or b"-1")
        self.sym1 = self._syms(r["sym1"])
        self.sym2 = self._syms(r["sym2"])
        self.image = {}
        self.kind = {}
        b = r["img"]
        i = 0
        while i < len(b):
            start, ln = struct.unpack_from("<II", b, i)
            i += 8
            for j in range(ln):
                self.image[start + j] = b[i + j]
                self.kind[start + j] = b[i + ln + j]
            i += 2 * ln
        self.ok = self.phase == 0

    @staticmethod
    def _syms(t):
        out = []
        for line in t.decode("latin-1").split("\n"):
            if line:
                n, a, s, e = line.split("\t")
                out.append((n, int(a), int(s), e == "1"))
        return out

    def symdict(self, which=2):
        return {(n, s): a for n, a, s, e in (self.sym2 if which == 2 else self.sym1)}

    def diag(self):
        return [l for l in self.out.split("\n") if is_diagnostic(l)]

    def bytes_at(self, addr, n):
        return bytes(self.image.get(addr + i, 0) for i in range(n))


DIAG_MARKS = ("Error", "error", "Cannot open", "Unknown escape", "** Errors", "*** Failed",
              "Couldn't", "Illegal", "not supported", "Unknown", "Unexpected", "already defined",
              "Too many", "too big", "Missing", "Unterminated", "Expected")


def is_diagnostic(line):
    if line.startswith("Warning") or "Warning:" in line:
        return False
    return any(m in line for m in DIAG_MARKS)


# --------------------------------------------------------------- CLI helpers
def run_cli(prog, args, cwd, stdin=None, timeout=60):
    """Run naken_asm_san / naken_util_san.  Returns (rc, stdout, stderr, timed_out).
    rc < 0 = killed by signal; rc == 86 = sanitizer report."""
    exe = os.path.join(build_dir(), prog)
    try:
        p = subprocess.run([exe] + list(args), cwd=cwd, input=stdin, stdout=subprocess.PIPE,
                           stderr=subprocess.PIPE, env=san_env(), timeout=timeout)
        return p.returncode, p.stdout.decode("latin-1"), p.stderr.decode("latin-1"), False
    except subprocess.TimeoutExpired as e:
        return None, (e.stdout or b"").decode("latin-1"), (e.stderr or b"").decode("latin-1"), True


# ------------------------------------------------------------ known findings
def load_known(prop):
    p = os.path.join(VERIF, "known_findings.json")
    try:
        d = json.load(open(p))
    except OSError:
        return []
    return [f for f in d.get("findings", []) if f.get("property") == prop and f.get("status") == "open"]


# ------------------------------------------------------------------- stats
class Stats:
    """Per-shard counters; merged in the parent."""

    def __init__(self):
        self.evaluations = 0
        self.nontrivial = set()
        self.classes = {}
        self.samples = []
        self.excluded_known = 0
        self.inconclusive = 0
        self.known_hits = {}      # finding id -> example
        self.violations = []      # list of dict (replay payloads)
        self.notes = []

    def count(self, cls, n=1):
        self.classes[cls] = self.classes.get(cls, 0) + n

    def sample(self, s, limit=8):
        if len(self.samples) < limit:
            self.samples.append(s)

    def nt(self, key):
        self.nontrivial.add(key if isinstance(key, str) else repr(key))

    def to_dict(self):
        return dict(evaluations=self.evaluations, nontrivial=sorted(self.nontrivial),
                    classes=self.classes, samples=self.samples, excluded_known=self.excluded_known,
                    inconclusive=self.inconclusive, known_hits=self.known_hits,
                    violations=self.violations, notes=self.notes)


def merge_stats(dicts):
    m = dict(evaluations=0, nontrivial=set(), classes={}, samples=[], excluded_known=0,
             inconclusive=0, known_hits={}, violations=[], notes=[])
    for d in dicts:
        m["evaluations"] += d["evaluations"]
        m["nontrivial"].update(d["nontrivial"])
        for k, v in d["classes"].items():
            m["classes"][k] = m["classes"].get(k, 0) + v
        for s in d["samples"]:
            if len(m["samples"]) < 12:
                m["samples"].append(s)
        m["excluded_known"] += d["excluded_known"]
        m["inconclusive"] += d["inconclusive"]
        for k, v in d["known_hits"].items():
            m["known_hits"].setdefault(k, v)
        m["violations"].extend(d["violations"])
        m["notes"].extend(d["notes"])
    return m


def save_replay(prop, payload):
    d = os.path.join(replay_dir(), prop)
    os.makedirs(d, exist_ok=True)
    payload = dict(payload)
    payload["property"] = prop
    blob = json.dumps(payload, sort_keys=True, indent=1)
    name = hashlib.sha1(blob.encode()).hexdigest()[:16] + ".json"
    p = os.path.join(d, name)
    with open(p, "w") as f:
        f.write(blob)
    return p


def evidence_dir():
    """/verif/evidence, or NV_EVIDENCE_DIR when a scratch copy of the repository is being checked (tools/seedtest.py)"""
    return os.environ.get("NV_EVIDENCE_DIR") or os.path.join(VERIF, "evidence")


def replay_dir():
    return os.environ.get("NV_REPLAY_DIR") or os.path.join(VERIF, "replays")


def repo_re():
    """regex alternative matching the source root in sanitizer reports (the tree the binaries were built from)"""
    import re
    return "(?:%s)" % "|".join(sorted(set(["/repo", re.escape(nvbuild.repo_dir())])))


def write_evidence(prop, tier, seed, merged, rule, wall, extra=None, assumptions=None, nviol=0):
    os.makedirs(evidence_dir(), exist_ok=True)
    cov = dict(evaluations=int(merged["evaluations"]),
               distinct_nontrivial=len(merged["nontrivial"]),
               rule=rule,
               samples=merged["samples"][:12],
               classes=dict(sorted(merged["classes"].items())),
               excluded_known=merged["excluded_known"],
               inconclusive=merged["inconclusive"],
               known_findings_hit=sorted(merged["known_hits"].keys()))
    if merged["notes"]:
        cov["notes"] = merged["notes"][:20]
    if extra:
        cov.update(extra)
    ev = dict(property_id=prop, tier=tier, seed=int(seed), level="exploration", coverage=cov,
              assumptions=assumptions or [], wall_s=round(wall, 2), violations=int(nviol))
    p = os.path.join(evidence_dir(), prop + ".json")
    tmp = p + ".tmp"
    with open(tmp, "w") as f:
        json.dump(ev, f, indent=1, sort_keys=True)
    os.replace(tmp, p)
    return p


def shard_seed(seed, shard, salt=""):
    h = hashlib.sha256(("%d/%d/%s" % (seed, shard, salt)).encode()).digest()
    return int.from_bytes(h[:8], "little")


def _shard_entry(args):
    fn, tier, seed, shard, nshards = args
    try:
        st = fn(tier, seed, shard, nshards)
        return st.to_dict() if isinstance(st, Stats) else st
    except Exception:
        st = Stats()
        st.notes.append("HARNESS-ERROR shard %d: %s" % (shard, traceback.format_exc()[-1500:]))
        d = st.to_dict()
        d["harness_error"] = True
        return d


def run_sharded(fn, tier, seed, nshards=None):
    nshards = nshards or NSHARDS
    ctx = multiprocessing.get_context("fork")
    with ctx.Pool(nshards) as pool:
        res = pool.map(_shard_entry, [(fn, tier, seed, s, nshards) for s in range(nshards)], chunksize=1)
    herr = any(r.get("harness_error") for r in res)
    m = merge_stats(res)
    m["harness_error"] = herr
    return m


# ------------------------------------------------------------ hypothesis glue
class Violation(Exception):
    def __init__(self, payload):
        Exception.__init__(self, payload.get("what", "violation"))
        self.payload = payload


def hyp_run(test_fn, strategy, n_examples, seed, stats, max_violations=1):
    """Run test_fn over `strategy` with Hypothesis; a raised Violation is shrunk
    and its minimal payload appended to stats.violations."""
    from hypothesis import given, settings, seed as hseed, HealthCheck, Phase
    import hypothesis.errors as herr
    last = {}

    @hseed(seed)
    @settings(max_examples=n_examples, database=None, deadline=None, derandomize=False,
              suppress_health_check=list(HealthCheck), phases=[Phase.generate, Phase.shrink],
              report_multiple_bugs=False, print_blob=False)
    @given(strategy)
    def t(case):
        try:
            test_fn(case)
        except Violation as v:
            last["v"] = v.payload
            raise

    try:
        t()
    except Violation:
        stats.violations.append(last["v"])
    except herr.Flaky as e:
        if "v" in last:
            p = dict(last["v"])
            p["flaky"] = True
            stats.violations.append(p)
        else:
            stats.notes.append("HARNESS-ERROR flaky: %r" % (e,))
            raise
