"""Reference model of the MSP430 16-bit CPU, written from the MSP430x2xx family user's guide (SLAU144, ch. 3:
registers, addressing modes, constant generators, instruction set descriptions and the cycle tables 3-14..3-16).
Not derived from /repo/simulate/msp430.cpp.

step(st) executes one instruction.  st: regs (list of 16 ints), mem (object with rd8/wr8), returns Info with
what the guide leaves undefined (`undef`: set of 'V', 'hi@addr', ...) or raises Undefined for encodings/operand
combinations the guide does not define (the caller skips those)."""

C, Z, N, V = 1, 2, 4, 0x100


class Undefined(Exception):
    pass


class Mem:
    """64 KiB, lazily defined by a fill function; records writes"""

    def __init__(self, fill):
        self.fill = fill
        self.over = {}
        self.writes = {}
        self.log = []

    def rd8(self, a):
        a &= 0xffff
        if a in self.writes:
            return self.writes[a]
        if a in self.over:
            return self.over[a]
        return self.fill(a)

    def rd16(self, a):
        if a & 1:
            raise Undefined("word access at odd address")
        return self.rd8(a) | (self.rd8(a + 1) << 8)

    def wr8(self, a, v):
        self.writes[a & 0xffff] = v & 0xff
        self.log.append((a & 0xffff, v & 0xff))

    def wr16(self, a, v):
        if a & 1:
            raise Undefined("word access at odd address")
        self.wr8(a, v)
        self.wr8(a + 1, v >> 8)

    def initial(self, a):
        a &= 0xffff
        return self.over[a] if a in self.over else self.fill(a)


class Info:
    def __init__(self):
        self.cycles = 0
        self.undef = set()
        self.kind = ""
        self.src_ea = None
        self.dst_ea = None
        self.is_ret = False
        self.is_call = False


def _src(st, mem, reg, As, bw, info):
    """returns (value, ea or None, mode name) and advances PC / auto-increments"""
    r = st
    mask = 0xff if bw else 0xffff
    if reg == 3:
        return ([0, 1, 2, 0xffff][As] & mask, None, "cg")
    if reg == 2 and As >= 2:
        return ([0, 0, 4, 8][As], None, "cg")
    if As == 0:
        return (r[reg] & mask, None, "reg")
    if As == 1:
        x = mem.rd16(r[0])
        if reg == 0:
            ea = (r[0] + x) & 0xffff            # symbolic: relative to the address of the extension word
        elif reg == 2:
            ea = x                              # absolute
        else:
            ea = (r[reg] + x) & 0xffff
        r[0] = (r[0] + 2) & 0xffff
        v = mem.rd8(ea) if bw else mem.rd16(ea)
        return (v, ea, "idx")
    # As 2 / 3
    ea = r[reg]
    v = mem.rd8(ea) if bw else mem.rd16(ea)
    if As == 3:
        inc = 2 if (not bw or reg in (0, 1)) else 1     # PC and SP always step by 2
        r[reg] = (r[reg] + inc) & 0xffff
        return (v, ea, "imm" if reg == 0 else "inc")
    if reg == 0:
        raise Undefined("@PC")
    return (v, ea, "ind")


def _flags_nz(st, res, bw):
    msb = 0x80 if bw else 0x8000
    mask = 0xff if bw else 0xffff
    st[2] &= ~(N | Z)
    if res & msb:
        st[2] |= N
    if (res & mask) == 0:
        st[2] |= Z


def _set(st, flag, on):
    if on:
        st[2] |= flag
    else:
        st[2] &= ~flag


F1_CYCLES = {  # (src mode class) -> (dst reg, dst PC, dst mem)
    "reg": (1, 2, 4), "cg": (1, 2, 4), "ind": (2, 2, 5), "inc": (2, 3, 5), "imm": (2, 3, 5), "idx": (3, 3, 6)}
F2_CYCLES = {  # mode -> (rrc/rra/swpb/sxt, push, call)
    "reg": (1, 3, 4), "cg": (1, 3, 4), "ind": (3, 4, 4), "inc": (3, 5, 5), "imm": (None, 4, 5), "idx": (4, 5, 5)}


def bcd_ok(v, bw):
    n = 2 if bw else 4
    return all(((v >> (4 * i)) & 15) <= 9 for i in range(n))


def step(st, mem):
    """st: list of 16 register values (modified in place)"""
    info = Info()
    pc = st[0]
    if pc & 1:
        raise Undefined("odd PC")
    op = mem.rd16(pc)
    st[0] = (pc + 2) & 0xffff
    top = op >> 12
    if top == 1 and (op & 0x0c00) == 0:
        o = (op >> 7) & 7
        bw = (op >> 6) & 1
        As = (op >> 4) & 3
        reg = op & 15
        if o == 7:
            raise Undefined("illegal format II opcode")
        if o == 6:
            if op != 0x1300:
                raise Undefined("reti with operand bits")
            info.kind = "reti"
            if st[1] & 1:
                raise Undefined("odd SP")
            st[2] = mem.rd16(st[1])
            st[1] = (st[1] + 2) & 0xffff
            st[0] = mem.rd16(st[1])
            st[1] = (st[1] + 2) & 0xffff
            info.cycles = 5
            return info
        if bw and o in (1, 3, 5):
            raise Undefined("byte form of swpb/sxt/call")
        name = ["rrc", "swpb", "rra", "sxt", "push", "call"][o]
        info.kind = name
        if o >= 4 and reg == 1:
            raise Undefined("push/call with SP operand")
        if st[1] & 1:
            raise Undefined("odd SP")
        val, ea, mode = _src(st, mem, reg, As, bw, info)
        info.src_ea = ea
        cyc = F2_CYCLES[mode][0 if o < 4 else (1 if o == 4 else 2)]
        if o < 4:
            if mode in ("cg", "imm"):
                raise Undefined("constant as destination")
            if As == 0 and reg in (0, 2, 3):
                raise Undefined("format II on PC/SR/CG register")
            msb = 0x80 if bw else 0x8000
            mask = 0xff if bw else 0xffff
            if o == 0:
                res = (val >> 1) | (msb if st[2] & C else 0)
                _set(st, C, val & 1)
                _flags_nz(st, res, bw)
                _set(st, V, 0)
            elif o == 2:
                res = (val >> 1) | (val & msb)
                _set(st, C, val & 1)
                _flags_nz(st, res, bw)
                _set(st, V, 0)
            elif o == 1:
                res = ((val >> 8) | (val << 8)) & 0xffff
            else:
                res = (val & 0xff) | (0xff00 if val & 0x80 else 0)
                _flags_nz(st, res, 0)
                _set(st, C, res != 0)
                _set(st, V, 0)
            res &= mask
            if As == 0:
                st[reg] = res
            elif bw:
                mem.wr8(ea, res)
            else:
                mem.wr16(ea, res)
        elif o == 4:
            st[1] = (st[1] - 2) & 0xffff
            if bw:
                mem.wr8(st[1], val)
                info.undef.add("mem:%d" % ((st[1] + 1) & 0xffff))
            else:
                mem.wr16(st[1], val)
        else:
            st[1] = (st[1] - 2) & 0xffff
            mem.wr16(st[1], st[0])
            st[0] = val
            info.is_call = True
        info.cycles = cyc
        return info
    if (op & 0xe000) == 0x2000:
        cond = (op >> 10) & 7
        off = op & 0x3ff
        if off & 0x200:
            off -= 0x400
        sr = st[2]
        n, z, c, v = bool(sr & N), bool(sr & Z), bool(sr & C), bool(sr & V)
        take = [not z, z, not c, c, n, n == v, n != v, True][cond]
        if take:
            st[0] = (st[0] + 2 * off) & 0xffff
        info.kind = "jump"
        info.cycles = 2
        return info
    if top < 4:
        raise Undefined("not a 16-bit core opcode")
    sreg = (op >> 8) & 15
    Ad = (op >> 7) & 1
    bw = (op >> 6) & 1
    As = (op >> 4) & 3
    dreg = op & 15
    name = [None, None, None, None, "mov", "add", "addc", "subc", "sub", "cmp", "dadd", "bit", "bic", "bis", "xor", "and"][top]
    info.kind = name
    if Ad == 1 and dreg == 3:
        raise Undefined("indexed destination on CG")
    if Ad == 0 and dreg == 3:
        raise Undefined("CG as destination register")
    sval, sea, smode = _src(st, mem, sreg, As, bw, info)
    info.src_ea = sea
    mask = 0xff if bw else 0xffff
    msb = 0x80 if bw else 0x8000
    writes = name not in ("cmp", "bit")
    if Ad == 0:
        dea = None
        dval = st[dreg] & mask
    else:
        x = mem.rd16(st[0])
        if dreg == 0:
            dea = (st[0] + x) & 0xffff
        elif dreg == 2:
            dea = x
        else:
            dea = (st[dreg] + x) & 0xffff
        st[0] = (st[0] + 2) & 0xffff
        if name == "mov":
            dval = 0
            if (not bw) and (dea & 1):
                raise Undefined("word access at odd address")
        else:
            dval = mem.rd8(dea) if bw else mem.rd16(dea)
    info.dst_ea = dea
    sets_flags = name not in ("mov", "bic", "bis")
    if Ad == 0 and dreg == 2 and sets_flags and writes:
        raise Undefined("flag-setting operation with SR as destination")
    if Ad == 0 and dreg == 0 and bw and writes:
        raise Undefined("byte write to PC")
    if name == "mov":
        res = sval
    elif name in ("add", "addc", "sub", "subc", "cmp"):
        if name in ("add", "addc"):
            b = sval
            cin = (1 if st[2] & C else 0) if name == "addc" else 0
        else:
            b = (~sval) & mask
            cin = (1 if st[2] & C else 0) if name == "subc" else 1
        full = dval + b + cin
        res = full & mask
        _flags_nz(st, res, bw)
        _set(st, C, full > mask)
        _set(st, V, ((dval ^ res) & (b ^ res) & msb) != 0)
    elif name == "dadd":
        if not (bcd_ok(sval, bw) and bcd_ok(dval, bw)):
            raise Undefined("dadd with non-BCD operand")
        n = 2 if bw else 4
        carry = 1 if st[2] & C else 0
        res = 0
        for i in range(n):
            d = ((sval >> (4 * i)) & 15) + ((dval >> (4 * i)) & 15) + carry
            carry = 1 if d > 9 else 0
            if carry:
                d -= 10
            res |= d << (4 * i)
        _flags_nz(st, res, bw)
        _set(st, C, carry)
        info.undef.add("V")
    elif name in ("bit", "and"):
        res = sval & dval
        _flags_nz(st, res, bw)
        _set(st, C, res != 0)
        _set(st, V, 0)
    elif name == "bic":
        res = dval & ~sval & mask
    elif name == "bis":
        res = dval | sval
    elif name == "xor":
        res = sval ^ dval
        _flags_nz(st, res, bw)
        _set(st, C, res != 0)
        _set(st, V, (sval & msb) and (dval & msb))
    res &= mask
    if writes:
        if Ad == 0:
            st[dreg] = res                      # byte operations clear the high byte of a register
        elif bw:
            mem.wr8(dea, res)
        else:
            mem.wr16(dea, res)
    col = 2 if Ad == 1 else (1 if dreg == 0 else 0)
    info.cycles = F1_CYCLES[smode][col]
    if op == 0x4130:
        info.is_ret = True
    return info
