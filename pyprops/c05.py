"""C05 Data/location directives place exactly the specified bytes at the right address."""
import os
from hypothesis import strategies as st

from nvlib import (Worker, WorkerCrash, WorkerTimeout, Stats, Violation, hyp_run, shard_seed, load_known)

PROP = "C05"
RULE = ("Hypothesis sequences (1..25) of .org/.db/.dc8/.ascii/.asciiz/.dw/.dc16/.dl/.dc32/.dd/.dc64/.dq/.resb/.resw/"
        ".align/.align_bytes/.data_fill/.binfile/.big_endian/.little_endian/labels/$ on CPUs with 1,2,4,8 bytes per "
        "address and both byte orders; an independent interpreter of the same abstract sequence (location counter in "
        "bytes, .org n -> n*bpa, labels/$ = counter/bpa, per-width emit in the current byte order, reserve/align move "
        "without writing) gives the expected image (addr->byte, exact key set = 'nothing else') and symbol values; "
        "out-of-range .db/.dw operands must be rejected, whether the value is spelled as a literal, an expression, a .set symbol, an equ define, a backward label, a forward label or a difference of two forward labels (value known only in pass 2). non-trivial = >=3 directive kinds and an .org/.align/.res*; "
        "distinct key = (sorted directive kinds, bpa, endian-switch, page-crossing)")
ASSUMPTIONS = ["labels and $ are only generated where the byte counter is a multiple of bytes-per-address "
               "(the statement does not define a label in the middle of an address unit)",
               ".align arguments are powers of two (documented list 16,32,64,128..), .resb/.resw counts are >= 0",
               "addresses stay below 0xfffffff0"]

# name, bytes per address, default endian (0 little)
CPUS = [("msp430", 1, 0), ("z80", 1, 0), ("68000", 1, 1), ("avr8", 2, 0), ("lc3", 2, 1), ("pic14", 2, 0),
        ("propeller", 4, 0), ("ebpf", 8, 0), ("mips", 1, 1), ("riscv", 1, 0), ("tms9900", 1, 1)]

ORGS = [0, 1, 2, 0x10, 0xff, 0x100, 0xfff0, 0xfffe, 0xffff, 0x10000, 0x1fff8, 0x12345, 0xfffff0, 0x1000000,
        0x7fff0000, 0x7ffffff8, 0x80000000, 0xfffe0000, 0xffff0000, 0xfffffe00]

ESC = {"\n": "\\n", "\t": "\\t", "\r": "\\r", "\\": "\\\\", "\"": "\\\"", "\0": "\\0"}
STR_CHARS = [chr(c) for c in range(32, 127) if chr(c) not in "\"\\"] + ["\n", "\t", "\r", "\\", "\"", "\0"]


def num_text(draw, v):
    """spell an integer (possibly negative) as decimal or hex"""
    if v < 0:
        return "-" + num_text(draw, -v)
    if v >= (1 << 63):
        return "0x%x" % v        # decimal literals >= 2^63 are outside the documented domain
    k = draw(st.sampled_from(["dec", "dec", "hex"]))
    return str(v) if k == "dec" else "0x%x" % v


@st.composite
def value(draw, width, labels_back, labels_all):
    """('num', v, text) | ('lab', name, k, text) | ('dollar', k, text)"""
    c = draw(st.integers(0, 9))
    if c == 0 and labels_all:
        name = draw(st.sampled_from(labels_all))
        k = draw(st.integers(0, 3))
        return ("lab", name, k, name if k == 0 else "%s + %d" % (name, k))
    if c == 1:
        k = draw(st.integers(0, 2))
        return ("dollar", k, "$" if k == 0 else "$ + %d" % k)
    lo, hi = {8: (-128, 255), 16: (-32768, 65535), 32: (-(1 << 31), (1 << 32) - 1),
              64: (-(1 << 63), (1 << 63) - 1)}[width]
    bound = [lo, lo + 1, -1, 0, 1, 0x7f, 0x80, 0xff, hi - 1, hi]
    if width >= 16:
        bound += [0x100, 0x7fff, 0x8000]
    if width >= 32:
        bound += [0xffff, 0x10000, 0x7fffffff, 0x80000000 if hi >= 0x80000000 else 0]
    if width == 64:
        bound += [0xffffffff, 0x100000000, 0x123456789abcdef0]
    v = draw(st.one_of(st.sampled_from(bound), st.integers(lo, hi)))
    return ("num", v, num_text(draw, v))


@st.composite
def string_lit(draw):
    chars = draw(st.lists(st.sampled_from(STR_CHARS), min_size=0, max_size=12))
    s = "".join(chars)
    return ("str", s, "\"" + "".join(ESC.get(c, c) for c in s) + "\"")


@st.composite
def program(draw):
    cpu = draw(st.sampled_from(CPUS))
    bpa = cpu[1]
    n = draw(st.integers(1, 25))
    stmts = []
    nlabels = 0
    labels = []
    # decide label names up-front so forward references are possible
    planned = ["dlab%d" % i for i in range(draw(st.integers(0, 5)))]
    counter_known_aligned = True   # tracked conservatively by the generator (model re-checks)
    for i in range(n):
        kind = draw(st.sampled_from(["db", "db", "dc8", "ascii", "asciiz", "dw", "dc16", "dl", "dc32", "dd",
                                     "dc64", "dq", "resb", "resw", "align", "align_bytes", "data_fill",
                                     "binfile", "endian", "org", "org", "label", "label"]))
        if kind == "label":
            if nlabels < len(planned):
                stmts.append(("label", planned[nlabels]))
                nlabels += 1
            continue
        if kind == "org":
            base = draw(st.sampled_from(ORGS))
            a = base // bpa if draw(st.booleans()) else base
            if a * bpa > 0xfffffe00:
                a = 0xfffffe00 // bpa
            stmts.append(("org", a, num_text(draw, a)))
        elif kind in ("db", "dc8", "ascii", "asciiz"):
            items = draw(st.lists(st.one_of(value(8, [], planned) if kind in ("db", "dc8") else string_lit(),
                                            string_lit()), min_size=1, max_size=6))
            # label references in .db must fit a byte; only keep numeric / string / dollar items there
            items = [it for it in items if it[0] in ("num", "str")] or [("num", 0, "0")]
            stmts.append((kind, items))
        elif kind in ("dw", "dc16"):
            items = draw(st.lists(value(16, [], []), min_size=1, max_size=6))
            items = [it for it in items if it[0] == "num"] or [("num", 1, "1")]
            stmts.append((kind, items))
        elif kind in ("dl", "dc32", "dd"):
            stmts.append((kind, draw(st.lists(value(32, [], planned), min_size=1, max_size=5))))
        elif kind in ("dc64", "dq"):
            items = draw(st.lists(value(64, [], []), min_size=1, max_size=4))
            items = [it for it in items if it[0] == "num"] or [("num", 5, "5")]
            stmts.append((kind, items))
        elif kind in ("resb", "resw"):
            c = draw(st.sampled_from([0, 1, 2, 3, 7, 16, 255, 256, 1000, 65536]))
            stmts.append((kind, c, num_text(draw, c)))
        elif kind == "align":
            bits = draw(st.sampled_from([8, 16, 32, 64, 128, 256, 1024, 8192]))
            stmts.append(("align", bits, str(bits), draw(st.sampled_from(["align", "align", "align_bits"]))))
        elif kind == "align_bytes":
            b = draw(st.sampled_from([1, 2, 4, 8, 16, 64, 256, 1024]))
            stmts.append(("align_bytes", b, str(b)))
        elif kind == "data_fill":
            v = draw(st.sampled_from([-128, -1, 0, 1, 0x55, 0xaa, 255]))
            c = draw(st.sampled_from([1, 2, 3, 15, 16, 17, 100, 700]))
            stmts.append(("data_fill", v, c, "%s, %s" % (num_text(draw, v), num_text(draw, c))))
        elif kind == "binfile":
            data = draw(st.binary(min_size=0, max_size=40))
            stmts.append(("binfile", data))
        elif kind == "endian":
            stmts.append(("endian", draw(st.sampled_from([0, 1]))))
    # labels that were planned but never placed: place them at the end so references resolve
    for name in planned[nlabels:]:
        stmts.append(("label", name))
    dotted = draw(st.booleans())
    # CPU directive placement: first line (usual), or after a few statements assembled under the defaults
    # (msp430: 1 byte per address, little endian), optionally a second CPU switch later on
    c = draw(st.integers(0, 9))
    if c <= 2 and stmts:
        pos = draw(st.integers(1, min(4, len(stmts))))
        stmts.insert(pos, ("cpu", cpu))
        if c == 0 and len(stmts) > pos + 2:
            stmts.insert(draw(st.integers(pos + 1, len(stmts))), ("cpu", draw(st.sampled_from(CPUS))))
        cpu = ("msp430", 1, 0, "implicit")
    return (cpu, stmts, dotted)


# ------------------------------------------------------------------ model
class Model:
    def __init__(self, cpu):
        self.bpa = cpu[1]
        self.endian = cpu[2]

    def run(self, stmts, labels):
        """interpret; labels: dict name->value used for references (None = first pass, unknown -> 0)"""
        bpa = self.bpa
        endian = self.endian
        ctr = 0
        img = {}
        defs = {}
        ok_labels = True
        def emit(v, nbytes):
            nonlocal ctr
            b = (v & ((1 << (8 * nbytes)) - 1)).to_bytes(nbytes, "little")
            if endian == 1:
                b = b[::-1]
            for x in b:
                img[ctr & 0xffffffff] = x
                ctr += 1
        def val(it):
            if it[0] == "num":
                return it[1]
            if it[0] == "lab":
                return labels.get(it[1], 0) + it[2]
            if it[0] == "dollar":
                return ctr // bpa + it[1]
            raise ValueError(it)
        for s in stmts:
            k = s[0]
            if k == "label":
                defs[s[1]] = ctr // bpa
            elif k == "org":
                ctr = s[1] * bpa
            elif k in ("db", "dc8", "ascii", "asciiz"):
                for it in s[1]:
                    if it[0] == "str":
                        for ch in it[1]:
                            emit(ord(ch), 1)
                        if k == "asciiz":
                            emit(0, 1)
                    else:
                        emit(val(it), 1)
            elif k in ("dw", "dc16"):
                for it in s[1]:
                    emit(val(it), 2)
            elif k in ("dl", "dc32", "dd"):
                for it in s[1]:
                    emit(val(it), 4)
            elif k in ("dc64", "dq"):
                for it in s[1]:
                    emit(val(it), 8)
            elif k == "resb":
                ctr += s[1]
            elif k == "resw":
                ctr += 2 * s[1]
            elif k == "align":
                nb = s[1] // 8
                while ctr % nb:
                    ctr += 1
            elif k == "align_bytes":
                while ctr % s[1]:
                    ctr += 1
            elif k == "data_fill":
                for _ in range(s[2]):
                    emit(s[1], 1)
            elif k == "binfile":
                for x in s[1]:
                    emit(x, 1)
            elif k == "endian":
                endian = s[1]
            elif k == "cpu":
                bpa = s[1][1]
                endian = s[1][2]
        return img, defs


def needs_alignment_fix(stmts, bpa):
    """positions (statement indexes) of labels / $ uses where the counter is not a multiple of bpa"""
    return None


def render(cpu, stmts, dotted, files):
    d = "." if dotted else ""
    lines = [] if len(cpu) > 3 else [".%s" % cpu[0]]
    for s in stmts:
        k = s[0]
        if k == "label":
            lines.append("%s:" % s[1])
        elif k == "org":
            lines.append("%sorg %s" % (d, s[2]))
        elif k in ("db", "dc8", "ascii", "asciiz", "dw", "dc16", "dl", "dc32", "dd", "dc64", "dq"):
            lines.append("%s%s %s" % (d, k, ", ".join(it[-1] for it in s[1])))
        elif k in ("resb", "resw"):
            lines.append("%s%s %s" % (d, k, s[2]))
        elif k == "align":
            lines.append(".%s %s" % (s[3], s[2]))
        elif k == "align_bytes":
            lines.append(".align_bytes %s" % s[2])
        elif k == "data_fill":
            lines.append(".data_fill %s" % s[3])
        elif k == "binfile":
            name = "bin%d.dat" % len(files)
            files.append((name, s[1]))
            lines.append(".binfile \"%s\"" % name)
        elif k == "endian":
            lines.append(".big_endian" if s[1] else ".little_endian")
        elif k == "cpu":
            lines.append(".%s" % s[1][0])
    return "\n".join(lines) + "\n"


def sanitize(cpu, stmts):
    """construction (not filtering): drop labels and rewrite $-uses at positions where the byte counter is
    not a multiple of bytes-per-address, and drop references to labels that became undefined."""
    bpa = cpu[1]
    if bpa == 1 and not any(s[0] == "cpu" for s in stmts):
        return stmts
    m = Model(cpu)
    out = []
    defined = set()
    for s in stmts:
        trial = out + [s]
        # counter before this statement
        ctr = _counter(m, out)
        bpa = _bpa_after(m, out)
        if s[0] == "label":
            if ctr % bpa:
                continue
            defined.add(s[1])
            out.append(s)
            continue
        if s[0] in ("db", "dc8", "ascii", "asciiz", "dw", "dc16", "dl", "dc32", "dd", "dc64", "dq"):
            width = {"db": 1, "dc8": 1, "ascii": 1, "asciiz": 1, "dw": 2, "dc16": 2, "dl": 4, "dc32": 4, "dd": 4,
                     "dc64": 8, "dq": 8}[s[0]]
            items = []
            c = ctr
            for it in s[1]:
                if it[0] == "dollar" and c % bpa:
                    it = ("num", 7, "7")
                items.append(it)
                if it[0] == "str":
                    c += len(it[1]) + (1 if s[0] == "asciiz" else 0)
                else:
                    c += width
            s = (s[0], items)
        out.append(s)
    # references to labels that were dropped -> constants
    final = []
    for s in out:
        if s[0] in ("dl", "dc32", "dd", "dc64", "dq"):
            s = (s[0], [it if not (it[0] == "lab" and it[1] not in defined) else ("num", 9, "9") for it in s[1]])
        final.append(s)
    return final


def _max_counter(m, stmts):
    top = 0
    for i in range(len(stmts) + 1):
        top = max(top, _counter(m, stmts[:i]))
    return top


def _bpa_after(m, stmts):
    bpa = m.bpa
    for s in stmts:
        if s[0] == "cpu":
            bpa = s[1][1]
    return bpa


def _counter(m, stmts):
    bpa = m.bpa
    ctr = 0
    for s in stmts:
        k = s[0]
        if k == "cpu":
            bpa = s[1][1]
        elif k == "org":
            ctr = s[1] * bpa
        elif k in ("db", "dc8", "ascii", "asciiz"):
            for it in s[1]:
                ctr += (len(it[1]) + (1 if k == "asciiz" else 0)) if it[0] == "str" else 1
        elif k in ("dw", "dc16"):
            ctr += 2 * len(s[1])
        elif k in ("dl", "dc32", "dd"):
            ctr += 4 * len(s[1])
        elif k in ("dc64", "dq"):
            ctr += 8 * len(s[1])
        elif k == "resb":
            ctr += s[1]
        elif k == "resw":
            ctr += 2 * s[1]
        elif k == "align":
            nb = s[1] // 8
            while ctr % nb:
                ctr += 1
        elif k == "align_bytes":
            while ctr % s[1]:
                ctr += 1
        elif k == "data_fill":
            ctr += s[2]
        elif k == "binfile":
            ctr += len(s[1])
    return ctr


def has_bs0(stmts):
    """a string in which a literal backslash is directly followed by the digit 0"""
    for s in stmts:
        if s[0] in ("db", "dc8", "ascii", "asciiz"):
            for it in s[1]:
                if it[0] == "str" and "\\0" in it[1]:
                    return True
    return False


class Checker:
    def __init__(self, stats, worker):
        self.s = stats
        self.w = worker
        self.known = load_known(PROP)
        self.cur_range = None

    def known_match(self, kind, cpu, stmts, src):
        for f in self.known:
            m = f.get("match", {})
            if kind not in m.get("kinds", [kind]):
                continue
            pred = m.get("pred")
            if pred == "string_backslash_then_0" and stmts is not None and has_bs0(stmts):
                return f["id"]
            if pred == "range_operand_low32_in_range" and kind == "range_accepted" and self.cur_range is not None:
                d, v = self.cur_range
                lo, hi = (-128, 255) if d in ("db", "dc8") else (-32768, 65535)
                low32 = v & 0xffffffff
                if low32 >= 0x80000000:
                    low32 -= 1 << 32
                if not (lo <= v <= hi) and lo <= low32 <= hi:
                    return f["id"]
        return None

    def fail(self, what, kind, cpu, stmts, src, expected, observed):
        fid = self.known_match(kind, cpu, stmts, src)
        if fid:
            self.s.known_hits.setdefault(fid, dict(cpu=cpu[0], src=src, expected=expected, observed=observed))
            self.s.excluded_known += 1
            return
        raise Violation(dict(what=what, kind=kind, cpu=cpu[0], src=src, expected=expected, observed=observed,
                             files=[], engine="c05"))

    def run_src(self, src, files):
        for name, data in files:
            self.w.write_file(name, data)
        try:
            return self.w.asm(src)
        except (WorkerCrash, WorkerTimeout) as c:
            return c

    def check_program(self, cpu, stmts, dotted):
        files = []
        src = render(cpu, stmts, dotted, files)
        m = Model(cpu)
        _, defs = m.run(stmts, {})
        img, defs2 = m.run(stmts, defs)
        top = _max_counter(m, stmts)
        if top >= 0xfffffff0:
            self.s.count("excluded.counter_wraps_32bit")
            return
        if (cpu[1] > 1 or any(s_[0] == "cpu" and s_[1][1] > 1 for s_ in stmts)) and top >= 0x80000000:
            # open finding C05-signed-byte-address: excluded by construction, counted
            self.s.excluded_known += 1
            self.s.count("excluded.known.signed_byte_address")
            return
        r = self.run_src(src, files)
        payload_files = [(n, d.hex()) for n, d in files]
        def fail(what, kind, exp, obs):
            fid = self.known_match(kind, cpu, stmts, src)
            if fid:
                self.s.known_hits.setdefault(fid, dict(cpu=cpu[0], src=src, expected=exp, observed=obs))
                self.s.excluded_known += 1
                return
            raise Violation(dict(what=what, kind=kind, cpu=cpu[0], src=src, expected=exp, observed=obs,
                                 files=payload_files, engine="c05", mode="program",
                                 model_image={str(k): v for k, v in sorted(img.items())},
                                 model_syms=defs))
        if isinstance(r, WorkerCrash):
            return fail("assembler crashed on a data-directive program", "crash", "image", r.report[-1200:])
        if isinstance(r, WorkerTimeout):
            return fail("assembler hung on a data-directive program", "hang", "image", "timeout")
        if not r.ok:
            return fail("valid data-directive program rejected", "rejected", "accepted", "; ".join(r.diag())[:300])
        if r.read8_bad >= 0:
            return fail("Memory::read8 (the accessor every output writer reads the image through) returns a different "
                        "byte than the one stored", "read8_mismatch", "stored byte", "address 0x%x" % r.read8_bad)
        if r.image != img:
            diff = []
            for a in sorted(set(r.image) | set(img)):
                if r.image.get(a) != img.get(a):
                    diff.append((hex(a), img.get(a), r.image.get(a)))
                if len(diff) >= 8:
                    break
            return fail("image differs from the directive model (addr, expected, observed)", "wrong_image",
                        diff, "see expected")
        syms = {n: a for (n, sc), a in r.symdict(2).items() if sc == 0}
        if syms != defs:
            return fail("label values differ from the location counter model", "wrong_symbol", defs, syms)

    def check_range(self, cpu, directive, v, text, should_accept, spelling="lit"):
        self.cur_range = (directive, v)
        unit = cpu[1]
        A = 0x3000                                   # label address (in the CPU's address units)
        if spelling == "set":
            src = ".%s\n.set rsym = %s\n.%s rsym\n" % (cpu[0], text, directive)
        elif spelling == "equ":
            src = ".%s\nrdef equ %s\n.%s rdef\n" % (cpu[0], text, directive)
        elif spelling == "fwd":                      # value only known in pass 2
            src = ".%s\n.%s rfwd - %d\n.org 0x%x\nrfwd:\n" % (cpu[0], directive, A - v, A)
        elif spelling == "fwd_diff":                 # the classic length prefix: end - start, both defined later
            src = ".%s\n.%s rend - rstart\n.org 0x%x\nrstart:\n.org 0x%x\nrend:\n" % (cpu[0], directive, A, A + v)
        elif spelling == "bwd":
            src = ".%s\n.org 0x%x\nrbwd:\n.org 0\n.%s rbwd - %d\n" % (cpu[0], A, directive, A - v)
        elif spelling == "expr":
            a = v // 3
            src = ".%s\n.%s %d + %d * 2 - %d\n" % (cpu[0], directive, a, v - a, v - a)
        else:
            src = ".%s\n.%s %s\n" % (cpu[0], directive, text)
        r = self.run_src(src, [])
        exp = "accepted" if should_accept else "rejected with a diagnostic"
        if isinstance(r, WorkerCrash):
            return self.fail("crash on range test", "crash", cpu, None, src, exp, r.report[-1200:])
        if isinstance(r, WorkerTimeout):
            return self.fail("hang on range test", "hang", cpu, None, src, exp, "timeout")
        if should_accept:
            if not r.ok:
                return self.fail("in-range %s operand rejected" % directive, "range_rejected", cpu, None, src, exp,
                                 "; ".join(r.diag())[:200])
            n = 1 if directive in ("db", "dc8") else 2
            b = (v & ((1 << (8 * n)) - 1)).to_bytes(n, "little")
            if cpu[2] == 1:
                b = b[::-1]
            if r.bytes_at(0, n) != b or len(r.image) != n:
                return self.fail("in-range %s operand emitted wrongly" % directive, "range_value", cpu, None, src,
                                 b.hex(), r.bytes_at(0, n).hex())
        else:
            if r.ok:
                return self.fail("out-of-range %s operand accepted" % directive, "range_accepted", cpu, None, src,
                                 exp, dict(bytes=r.bytes_at(0, 2).hex()))
            if not r.diag():
                return self.fail("out-of-range operand rejected without diagnostic", "no_diag", cpu, None, src,
                                 exp, r.out[-200:])


def kinds_of(stmts):
    return sorted(set(s[0] for s in stmts))


def crosses_page(img):
    pages = set(a >> 16 for a in img)
    return len(pages) > 1


def run(tier, seed, shard, nshards):
    s = Stats()
    w = Worker("c05")
    ck = Checker(s, w)

    def test_prog(case):
        cpu, stmts, dotted = case
        stmts = sanitize(cpu, stmts)
        s.evaluations += 1
        kinds = kinds_of(stmts)
        for k in kinds:
            s.count("kind." + k)
        s.count("cpu.%s(bpa=%d,%s)" % (cpu[0], cpu[1], "BE" if cpu[2] else "LE"))
        if "cpu" in kinds:
            s.count("class.cpu_directive_not_first")
        mover = any(k in kinds for k in ("org", "align", "align_bytes", "resb", "resw"))
        if len(kinds) >= 3 and mover:
            m = Model(cpu)
            img, _ = m.run(stmts, {})
            s.nt((tuple(kinds), cpu[1], "endian" in kinds, crosses_page(img)))
            if crosses_page(img):
                s.count("class.page_crossing")
            if any(a > 0xffffff for a in img):
                s.count("class.addr>24bit")
            if len(s.samples) < 6 and len(stmts) >= 6:
                s.sample(dict(cpu=cpu[0], src=render(cpu, stmts, dotted, [])))
        ck.check_program(cpu, stmts, dotted)

    def test_range(case):
        cpu, directive, v, hexsp, spelling = case
        s.evaluations += 1
        lo, hi = (-128, 255) if directive in ("db", "dc8") else (-32768, 65535)
        ok = lo <= v <= hi
        text = ("-0x%x" % -v if v < 0 else "0x%x" % v) if hexsp else str(v)
        if spelling in ("set", "fwd", "bwd") and not (-(1 << 30) <= v < (1 << 30)):
            spelling = "lit"                         # symbols hold 32 bits
        if spelling == "fwd_diff" and not (0 <= v < (1 << 20)):
            spelling = "fwd" if -(1 << 30) <= v < (1 << 30) else "lit"
        s.count("range.%s.%s" % (directive, "in" if ok else "out"))
        s.count("range.spelling.%s.%s" % (spelling, "in" if ok else "out"))
        s.nt(("range", directive, v, spelling))
        ck.check_range(cpu, directive, v, text, ok, spelling)

    range_cases = st.tuples(
        st.sampled_from(CPUS), st.sampled_from(["db", "dc8", "dw", "dc16"]),
        st.one_of(st.sampled_from([-129, -128, -127, 255, 256, 257, -32769, -32768, 65535, 65536, 65537, 0x7fffffff,
                                   -0x80000000, 0x10000, 1 << 20, -(1 << 20), 0xffffffff, 0x100000000, 0x100000001,
                                   0x1000000ff, -0x100000000, (1 << 63) - 1, -(1 << 63), 1 << 40]),
                  st.integers(-70000, 70000), st.integers(-400, 400)),
        st.booleans(),
        st.sampled_from(["lit", "lit", "expr", "set", "equ", "fwd", "fwd", "fwd_diff", "bwd"]))
    try:
        n1 = 900 if tier == "quick" else 15000
        n2 = 400 if tier == "quick" else 6000
        hyp_run(test_prog, program(), n1, shard_seed(seed, shard, "c05p"), s)
        hyp_run(test_range, range_cases, n2, shard_seed(seed, shard, "c05r"), s)
    finally:
        w.close()
    return s


def replay(payload):
    s = Stats()
    w = Worker("c05r")
    try:
        for n, d in payload.get("files", []):
            w.write_file(n, bytes.fromhex(d))
        try:
            r = w.asm(payload["src"])
        except (WorkerCrash, WorkerTimeout) as c:
            return (payload["kind"] in ("crash", "hang")), "crash/hang: %s" % type(c).__name__
        kind = payload["kind"]
        if kind in ("crash", "hang"):
            return False, "no crash now"
        if payload.get("mode") == "program":
            if not r.ok:
                return kind == "rejected", "rejected: %s" % "; ".join(r.diag())[:200]
            img = {int(k): v for k, v in payload["model_image"].items()}
            if r.read8_bad >= 0:
                return True, "read8 mismatch at 0x%x" % r.read8_bad
            if r.image != img:
                return True, "image still differs"
            syms = {n: a for (n, sc), a in r.symdict(2).items() if sc == 0}
            if syms != payload["model_syms"]:
                return True, "symbols still differ"
            return False, "passes now"
        if kind == "range_accepted":
            return r.ok, "accepted" if r.ok else "rejected now"
        if kind == "range_rejected":
            return (not r.ok), "state: ok=%s" % r.ok
        if kind == "range_value":
            return r.ok and r.bytes_at(0, len(payload["expected"]) // 2).hex() != payload["expected"], "value"
        if kind == "no_diag":
            return (not r.ok) and not r.diag(), "diag"
        return False, "unknown kind"
    finally:
        w.close()
