"""C15 Every simulator survives every opcode from every state, deterministically."""
import os, re, random, struct
from nvlib import (Worker, WorkerCrash, WorkerTimeout, Stats, Violation, shard_seed, load_known, repo_re)

PROP = "C15"
RULE = ("for each of the 15 simulated CPUs (19 cpu_list entries share them): leading opcode patterns (8-bit CPUs: all "
        "256 first bytes x all second bytes sampled; 16/32-bit CPUs: quick every 16th, thorough all 65,536 leading "
        "half words, for 32-bit CPUs both the upper and the lower half word; in both tiers also 4 patterns per mnemonic the "
        "disassembler produces over the 65,536 leading patterns, twice) x operand bytes (zero / 0xff / keyed "
        "random fill) x register states (set through set_reg by name, values from {0,1,0x7f,0x80,0xff,0x7fff,0x8000,"
        "0xffff,...} masked to the register width, SP at 0 / 1 / top) x PC at 0, mid and the top of the address "
        "space; one `step` (enable_step_mode + run(-1,1), alternately with show on/off) on a fresh simulator inside "
        "the sanitized harness, every case executed twice in one child process in different order. Oracle: the step "
        "returns (no sanitizer report, signal, hang or exit()), no memory page or changed byte outside the simulated "
        "address space, both executions give the same return value, get_reg values, dump_registers text and memory "
        "diff; for 6502/65816/z80 (which advance with the disassembler's length) PC' == PC + disassembled length for "
        "non control-flow instructions that end at or below 0xffff, did not store into their own bytes and did execute (PC at the very top of the space included). non-trivial = step that returned 0 and changed a register or memory; "
        "distinct key = (cpu, leading pattern)")
ASSUMPTIONS = ["register values are masked to the architectural width of the register before set_reg (out-of-width values typed by a user are C17's domain)",
               "address spaces: 64 KiB for the 16-bit address CPUs, 16 MiB for 65816/stm8, 128 KiB for lc3/f100_l (16-bit word addresses), unlimited for mips/riscv/ebpf/avr8/tms1000"]

R16 = ["r%d" % i for i in range(16)]
CFG = {
    # name: regs [(name, width bits)], space bytes (0 unlimited), unit (opcode bytes 1/2/4), pcs
    "msp430": dict(regs=[(r, 16) for r in R16], space=0x10000, unit=2, sp=["r1"], pcmax=0xffff),
    "1802": dict(regs=[("d", 8), ("df", 1), ("p", 4), ("x", 4), ("t", 8), ("q", 1), ("ie", 1)] + [(r, 16) for r in R16],
                 space=0x10000, unit=1, sp=["r2"], pcmax=0xffff),
    "6502": dict(regs=[("a", 8), ("x", 8), ("y", 8), ("sr", 8), ("sp", 8)], space=0x10000, unit=1, sp=["sp"], pcmax=0xffff),
    "65816": dict(regs=[("a", 16), ("x", 16), ("y", 16), ("sr", 8), ("sp", 16), ("db", 8), ("pb", 8)], space=0x1000000,
                  unit=1, sp=["sp"], pcmax=0xffff),
    "8008": dict(regs=[(r, 8) for r in "abcdehl"] + [("sp", 3)], space=0x10000, unit=1, sp=["sp"], pcmax=0x3fff),
    "avr8": dict(regs=[("r%d" % i, 8) for i in range(32)] + [("sp", 16)], space=0, unit=2, sp=["sp"], pcmax=0xffff),
    "ebpf": dict(regs=[("r%d" % i, 32) for i in range(11)], space=0, unit=8, sp=["r10"], pcmax=0xfff8),
    "f100_l": dict(regs=[("a", 16), ("cr", 16), ("lsp", 16)], space=0x20000, unit=2, sp=["lsp"], pcmax=0x7fff),
    "lc3": dict(regs=[("r%d" % i, 16) for i in range(8)], space=0x20000, unit=2, sp=["r6"], pcmax=0xffff),
    "mips": dict(regs=[("$%d" % i, 32) for i in range(32)], space=0, unit=4, sp=["$29"], pcmax=0xfffffffc),
    "riscv": dict(regs=[("x%d" % i, 32) for i in range(32)], space=0, unit=4, sp=["x2"], pcmax=0xfffffffc),
    "stm8": dict(regs=[("a", 8), ("x", 16), ("y", 16), ("sp", 16), ("cc", 8)], space=0x1000000, unit=1, sp=["sp"], pcmax=0xffff),
    "tms1000": dict(regs=[("a", 4), ("x", 2), ("y", 4), ("r", 11), ("o", 8), ("k", 4)], space=0, unit=1, sp=[], pcmax=0x3ff),
    "tms9900": dict(regs=[(r, 16) for r in R16], space=0x10000, unit=2, sp=["r10"], pcmax=0xfffe),
    "z80": dict(regs=[(r, 8) for r in "afbcdehl"] + [("ix", 16), ("iy", 16), ("sp", 16)], space=0x10000, unit=1, sp=["sp"],
                pcmax=0xffff),
}
BOUND = [0, 1, 2, 0x7f, 0x80, 0xff, 0x100, 0x7fff, 0x8000, 0xffff, 0xfffe, 0x7fffffff, 0x80000000, 0xffffffff, 0xfffffffc,
         0xfffffffe, 0x10000, 0xffff0000]
CONTROL = re.compile(r"^\s*(j|b|rt|call|ret|brk|cop|wai|stp|per|djnz|rst|halt|stop|ld[id]r|cp[id]r|in[id]r|ot[id]r|mvn|mvp)", re.I)
PCLEN = {"6502": 0xffff, "65816": 0xffff, "z80": 0xffff}      # simulators that advance by the disassembler's length


class Known:
    def __init__(self):
        self.items = []
        for f in load_known(PROP):
            m = f.get("match", {})
            if m.get("pred") == "cpu_kind_patterns":
                self.items.append((f["id"], m))

    def match(self, cpu, kind, pattern):
        for fid, m in self.items:
            if cpu in m["cpus"] and kind in m["kinds"]:
                for lo, hi in m["patterns"]:
                    if lo <= pattern <= hi:
                        return fid
        return None


def make_case(rnd, cpu, cfg, pattern, which_half, endian):
    unit = cfg["unit"]
    key = rnd.getrandbits(32)
    fillk = rnd.choice([2, 2, 2, 1, 1])
    fillv = key if fillk == 2 else rnd.choice([0, 0xff])
    pcmax = cfg["pcmax"]
    align = 2 if unit in (2, 4, 8) and cpu not in ("lc3", "f100_l", "avr8", "tms9900x") else 1
    if cpu in ("mips", "riscv"):
        align = 4
    if cpu == "ebpf":
        align = 8
    choices = [0, 0x100, 0x1000, pcmax, pcmax - unit, pcmax - 1, rnd.randrange(0, pcmax + 1)]
    if pcmax > 0xffff:
        choices += [0xfffc, 0x10000, 0x7ffffffc, 0x80000000]
    pc = rnd.choice(choices) & 0xffffffff
    if rnd.random() < .9:
        pc -= pc % align
    # opcode bytes at the byte address of pc
    word_addr_cpus = {"lc3": 2, "f100_l": 2, "avr8": 2}
    baddr = pc * word_addr_cpus.get(cpu, 1)
    if unit == 1:
        ob = bytes([pattern >> 8, pattern & 0xff]) if pattern > 0xff else bytes([pattern])
        if pattern <= 0xff and rnd.random() < .5:
            ob += bytes([rnd.choice([0, 1, 0x7f, 0x80, 0xff, rnd.randrange(256)]) for _ in range(3)])
    elif unit == 2:
        ob = struct.pack("<H" if endian == 0 else ">H", pattern)
    else:
        other = rnd.choice([0, 0xffff, rnd.randrange(0x10000), rnd.randrange(0x10000)])
        w = (pattern << 16) | other if which_half == 0 else (other << 16) | pattern
        ob = struct.pack("<I" if endian == 0 else ">I", w)
        if unit == 8:
            ob += struct.pack("<I", rnd.choice([0, 1, 0xffffffff, 0x7fffffff, rnd.getrandbits(32)]))
    regs = []
    for name, width in cfg["regs"]:
        v = rnd.choice(BOUND) if rnd.random() < .8 else rnd.getrandbits(32)
        if rnd.random() < .15:
            v = 0
        if name in cfg["sp"] and rnd.random() < .6:
            v = rnd.choice([0, 1, 2, (1 << width) - 1, (1 << width) - 2, 0x100, 0x1ff, 0x7fff, 0x8000])
        regs.append((name, v & ((1 << width) - 1)))
    if cfg["space"] and cfg["space"] <= 0x20000:
        lo, hi = 0, cfg["space"]
    else:
        lo = (baddr & 0xffff0000)
        hi = min(lo + 0x10000, 0x100000000)
    # operand bytes wrap around inside the address space (the harness itself must not touch memory outside it)
    space = cfg["space"] or 0x100000000
    mem = []
    for k, b in enumerate(ob):
        mem.append(((baddr + k) % space, bytes([b])))
    return dict(cpu=cpu, pattern=pattern, half=which_half, fill=(fillk, fillv, lo, hi), mem=mem, regs=regs, pc=pc)


def pack_cases(cases):
    out = bytearray()
    for c in cases:
        fk, fv, lo, hi = c["fill"]
        out += struct.pack("<IIII", fk, fv, lo, hi & 0xffffffff if hi < 0x100000000 else 0xffffffff)
        out += struct.pack("<H", len(c["mem"]))
        for a, bs in c["mem"]:
            out += struct.pack("<IH", a, len(bs)) + bytes(bs)
        out += struct.pack("<H", len(c["regs"]))
        for name, v in c["regs"]:
            nb = name.encode()
            out += struct.pack("<B", len(nb)) + nb + struct.pack("<I", v)
        out += struct.pack("<I", c["pc"])
    return bytes(out)


def parse_results(blob, n):
    res = []
    pos = 0
    for _ in range(n):
        start = pos
        status = blob[pos]
        ret, nregs = struct.unpack_from("<iI", blob, pos + 1)
        pos += 9
        regs = list(struct.unpack_from("<%dI" % nregs, blob, pos))
        pos += 4 * nregs
        ndiff, = struct.unpack_from("<I", blob, pos)
        pos += 4
        diffs = {}
        for k in range(min(ndiff, 256)):
            a, o, v = struct.unpack_from("<IBB", blob, pos)
            pos += 6
            diffs[a] = v
        outside, first, tl = struct.unpack_from("<III", blob, pos)
        pos += 12
        text = blob[pos:pos + tl].decode("latin-1")
        pos += tl
        res.append(dict(status=status, ret=ret, regs=regs, diffs=diffs, ndiff=ndiff, outside=outside, first=first, text=text,
                        raw=bytes(blob[start:pos])))
    return res


def crash_detail(w, errpos):
    try:
        with open(w.errpath, "rb") as f:
            f.seek(errpos)
            err = f.read().decode("latin-1")
        m = re.search(r"(" + repo_re() + r"/\S+:\d+)[^\n]*runtime error: ([^\n]*)", err) or \
            re.search(r"ERROR: AddressSanitizer: (\S+)[^\n]*\n(?:[^\n]*\n){0,6}?\s*#\d+ [^\n]* in ([^\n]*simulate[^\n]*)", err) or \
            re.search(r"ERROR: AddressSanitizer: (\S+)[^\n]*", err)
        return (m.group(0) if m else "")[-300:]
    except OSError:
        return ""


_MNEMO = {}


def mnemonic_patterns(w, cpu, cfg, endian):
    """for 16/32-bit opcode CPUs: a few leading patterns per mnemonic the disassembler knows, so that every
    instruction is stepped at least once even when the stride sample of the quick tier skips its encodings"""
    if cpu in _MNEMO:
        return _MNEMO[cpu]
    out = []
    try:
        r = w.call({"cmd": "mnemonics", "cpu": cpu, "per": "3", "swap16": "1" if endian == 0 else "0"})
        half = 0
        if cfg["unit"] >= 4:
            half = 1 if endian == 0 else 0          # the first two bytes in memory are the low half word when little endian
        for line in r.get("mnemonics", b"").decode("latin-1").split("\n"):
            if "\t" in line:
                for p in line.split("\t")[1].split(","):
                    if p:
                        out.append((int(p), half))
    except (WorkerCrash, WorkerTimeout):
        pass
    _MNEMO[cpu] = sorted(set(out))
    return _MNEMO[cpu]


def patterns_for(cpu, cfg, tier, rnd):
    unit = cfg["unit"]
    if unit == 1:
        pats = [(p, 0) for p in range(256)] * (12 if tier == "quick" else 60)
        # two-byte prefixes for the prefixed instruction sets (z80 cb/dd/ed/fd, stm8 72/90/91/92, 1802 68, 65816)
        pref = {"z80": [0xcb, 0xdd, 0xed, 0xfd], "stm8": [0x72, 0x90, 0x91, 0x92], "1802": [0x68]}.get(cpu, [])
        for pf in pref:
            pats += [((pf << 8) | b, 0) for b in range(256)] * (12 if tier == "quick" else 60)
        return pats
    step = 16 if tier == "quick" else 1
    off = rnd.randrange(step)
    reps = 1 if tier == "quick" else 2
    halves = [0, 1] if unit >= 4 else [0]
    return [(p, h) for h in halves for p in range(off, 0x10000, step)] * reps


def pc_mismatch(cpu, c, a, s=None):
    """6502 / 65816 / z80 advance by the disassembler's length: after a step that is not a control transfer the
    program counter must be the address of the next disassembled instruction.  Not judged: instructions that end beyond
    0xffff (wrap of the program counter) and steps that stored into their own bytes (the length is then taken from the
    modified memory)."""
    if cpu not in PCLEN or a["ret"] != 0:
        return None
    md = re.search(r"#DIS (-?\d+) ([^\n]*)", a["text"])
    if not md or int(md.group(1)) <= 0 or CONTROL.match(md.group(2)) or "???" in md.group(2):
        return None
    ln = int(md.group(1))
    if c["pc"] + ln > PCLEN[cpu]:
        return None
    if any(c["pc"] <= x < c["pc"] + ln for x in a["diffs"]) or a["ndiff"] > 256:
        if s is not None:
            s.count("pc_vs_disassembler.self_modifying_skipped")
        return None
    want = c["pc"] + ln
    got = a["regs"][-1] & PCLEN[cpu]
    if got == c["pc"] and not a["diffs"]:
        # the step ended as a break / unimplemented opcode without executing (run() does not tell these apart from a
        # completed step): the program counter legitimately stays on the instruction
        if s is not None:
            s.count("pc_vs_disassembler.not_executed_skipped")
        return None
    if s is not None:
        s.count("pc_vs_disassembler.%s" % cpu)
        if want == PCLEN[cpu]:
            s.count("pc_vs_disassembler.ends_at_top_of_space")
    if got != want:
        return ("after '%s' at 0x%x (disassembler length %d) the program counter is 0x%x, the next disassembled "
                "instruction is at 0x%x" % (md.group(2).strip(), c["pc"], ln, got, want))
    return None


def run_cpu(w, s, cpu, cfg, tier, rnd, known, survey, endian, part, nparts):
    pats = patterns_for(cpu, cfg, tier, rnd)
    pats = [p for i, p in enumerate(pats) if i % nparts == part]
    if cfg["unit"] >= 2:
        mp = mnemonic_patterns(w, cpu, cfg, endian)
        extra = [p for i, p in enumerate(mp) if i % nparts == part]
        s.count("per_mnemonic_patterns.%s" % cpu, len(extra))
        pats = extra * 2 + pats
    regnames = ",".join(n for n, _ in cfg["regs"]) + (",pc" if cpu in PCLEN else "")
    fails = {}
    B = 250
    for bi in range(0, len(pats), B):
        chunk = pats[bi:bi + B]
        cases = [make_case(rnd, cpu, cfg, p, h, endian) for p, h in chunk]
        order = cases + cases[::-1]
        show = "1" if (bi // B) % 2 == 0 else "0"
        errpos = os.path.getsize(w.errpath) if os.path.exists(w.errpath) else 0
        try:
            r = w.call({"cmd": "simbatch", "cpu": cpu, "cases": pack_cases(order), "regs": regnames,
                        "space": str(cfg["space"]), "show": show, "steps": "1", "timeout": "5"})
        except (WorkerCrash, WorkerTimeout) as e:
            s.notes.append("HARNESS-ERROR simbatch %s did not complete: %s" % (cpu, type(e).__name__))
            continue
        res = parse_results(r["results"], len(order))
        detail_crash = None
        n = len(cases)
        for i, c in enumerate(cases):
            a, b = res[i], res[2 * n - 1 - i]
            s.evaluations += 2
            probs = []
            for g in (a, b):
                if g["status"] == 1:
                    if detail_crash is None:
                        detail_crash = crash_detail(w, errpos)
                    probs.append(("crash", "child status %d %s" % (g["ret"], detail_crash)))
                    break
                if g["status"] == 2:
                    probs.append(("hang", "the step did not return within 5 s"))
                    break
                if g["status"] == 3:
                    probs.append(("exit", "the step called exit(%d)" % g["ret"]))
                    break
            if not probs:
                if a["raw"] != b["raw"]:
                    what = [k for k in ("ret", "regs", "diffs", "text", "outside") if a[k] != b[k]]
                    probs.append(("nondeterministic", "two executions from the same state differ in %s" % ",".join(what)))
                space = cfg["space"]
                if space:
                    bad = [x for x in a["diffs"] if x >= space]
                    if a["outside"] or bad:
                        probs.append(("outside_memory", "memory touched outside the %d byte address space at 0x%x" % (
                            space, a["first"] if a["outside"] else bad[0])))
                pcm = pc_mismatch(cpu, c, a, s)
                if pcm:
                    probs.append(("pc_not_next_instruction", pcm))
                if a["ret"] == 0 and (a["diffs"] or True):
                    s.nt((cpu, c["pattern"] >> (8 if cfg["unit"] == 1 and c["pattern"] > 0xff else 0)))
                s.count("returned_%s.%s" % ("0" if a["ret"] == 0 else "nonzero", cpu))
            if any(k == "nondeterministic" for k, _ in probs) and not survey and "culprit" not in fails:
                # the same case alone may be deterministic: state left behind by an EARLIER step of this process (a
                # static flag, say) is the usual cause.  Find a predecessor that changes the victim's result.
                fails["culprit"] = None
                try:
                    def run_list(lst):
                        rr = w.call({"cmd": "simbatch", "cpu": cpu, "cases": pack_cases(lst), "regs": regnames,
                                     "space": str(cfg["space"]), "show": show, "steps": "1", "timeout": "5"})
                        return parse_results(rr["results"], len(lst))
                    alone = run_list([c, c])
                    if alone[0]["raw"] == alone[1]["raw"]:
                        seenp = set()
                        for pj in cases:
                            if pj["pattern"] in seenp:
                                continue
                            seenp.add(pj["pattern"])
                            after = run_list([pj, c])
                            if after[1]["raw"] != alone[0]["raw"] and after[0]["status"] == 0:
                                fails["culprit"] = (pj, c)
                                break
                except (WorkerCrash, WorkerTimeout):
                    pass
            for kind, detail in probs:
                if survey:
                    fails.setdefault(kind, []).append((c, detail))
                    continue
                fid = known.match(cpu, kind, c["pattern"])
                if fid:
                    s.known_hits.setdefault(fid, dict(cpu=cpu, kind=kind, pattern="0x%x" % c["pattern"], detail=detail[:200]))
                    s.excluded_known += 1
                    continue
                fails.setdefault(kind, []).append((c, detail))
        if len(s.samples) < 3 and cases:
            c = cases[0]
            s.sample(dict(cpu=cpu, pattern="0x%x" % c["pattern"], pc="0x%x" % c["pc"], regs=c["regs"][:4]))
    culprit = fails.pop("culprit", None)
    if culprit:
        pj, vc = culprit
        fid = known.match(cpu, "history_dependent", pj["pattern"])
        if fid:
            s.known_hits.setdefault(fid, dict(cpu=cpu, kind="history_dependent", pattern="0x%x" % pj["pattern"]))
            s.excluded_known += 1
        else:
            s.violations.append(dict(engine="c15", cpu=cpu, kind="history_dependent", pattern=pj["pattern"],
                                     detail="a step of pattern 0x%x changes what a LATER step of pattern 0x%x does in the same "
                                            "process (state outside the simulator object survives)" % (pj["pattern"], vc["pattern"]),
                                     pre=dict(pj, mem=[(a, list(bs)) for a, bs in pj["mem"]]),
                                     case=dict(vc, mem=[(a, list(bs)) for a, bs in vc["mem"]]), count=1, patterns="0x%x" % pj["pattern"],
                                     what="the same step from the same starting state gives a different result after another step "
                                          "was executed earlier in the process"))
        fails.pop("nondeterministic", None)
    for kind, lst in sorted(fails.items()):
        pts = sorted(set(c["pattern"] for c, _ in lst))
        if survey:
            s.notes.append("SURVEY\t%s\t%s\t%d\t%s\t%s" % (cpu, kind, len(lst), compress(pts), lst[0][1][:300]))
            continue
        # one violation per (cpu, kind, root detail)
        seen = set()
        for c, detail in lst:
            k = detail[:120]
            if k in seen:
                continue
            seen.add(k)
            s.violations.append(dict(engine="c15", cpu=cpu, kind=kind, pattern=c["pattern"], detail=detail, case=dict(
                c, mem=[(a, list(bs)) for a, bs in c["mem"]]), count=len(lst), patterns=compress(pts)[:300],
                what={"crash": "the simulator crashed during one step (sanitizer report or signal)",
                      "hang": "one step did not return", "exit": "one step terminated the process via exit()",
                      "nondeterministic": "the same step from the same state gave two different results",
                      "outside_memory": "the step touched memory outside the simulated address space",
                      "pc_not_next_instruction": "after a non-branching instruction the program counter is not the address "
                                                 "of the next disassembled instruction"}[kind]))
            if len(seen) >= 3:
                break


def compress(pts):
    out = []
    for p in pts:
        if out and out[-1][1] + 1 == p:
            out[-1][1] = p
        else:
            out.append([p, p])
    return ",".join("0x%x" % a if a == b else "0x%x-0x%x" % (a, b) for a, b in out)


def run(tier, seed, shard, nshards):
    s = Stats()
    known = Known()
    survey = os.environ.get("NV_SURVEY") == "1"
    w = Worker("c15", timeout=3000)
    try:
        info = {c["name"]: c for c in w.cpus()}
        # every (cpu, part) work item is assigned round robin so that big CPUs are spread over the shards
        items = []
        for cpu in sorted(CFG):
            nparts = 4 if CFG[cpu]["unit"] == 1 else 16
            for part in range(nparts):
                items.append((cpu, part, nparts))
        for i, (cpu, part, nparts) in enumerate(items):
            if i % nshards != shard:
                continue
            rnd = random.Random(shard_seed(seed, part, "c15" + cpu))
            run_cpu(w, s, cpu, CFG[cpu], tier, rnd, known, survey, info[cpu]["endian"] if cpu in info else 0, part, nparts)
    finally:
        w.close()
    return s


def replay(payload):
    w = Worker("c15r", timeout=300)
    try:
        c = payload["case"]
        cpu = c["cpu"]
        cfg = CFG[cpu]
        case = dict(c, mem=[(a, bytes(bs)) for a, bs in c["mem"]], regs=[tuple(x) for x in c["regs"]], fill=tuple(c["fill"]))
        regnames = ",".join(n for n, _ in cfg["regs"]) + (",pc" if cpu in PCLEN else "")
        if payload["kind"] == "history_dependent":
            pc_ = payload["pre"]
            pre = dict(pc_, mem=[(a, bytes(bs)) for a, bs in pc_["mem"]], regs=[tuple(x) for x in pc_["regs"]], fill=tuple(pc_["fill"]))
            for show in ("1", "0"):
                def run_list(lst):
                    rr = w.call({"cmd": "simbatch", "cpu": cpu, "cases": pack_cases(lst), "regs": regnames,
                                 "space": str(cfg["space"]), "show": show, "steps": "1", "timeout": "5"})
                    return parse_results(rr["results"], len(lst))
                alone = run_list([case])
                after = run_list([pre, case])
                if after[1]["raw"] != alone[0]["raw"]:
                    return True, "the step gives a different result after the other step"
            return False, "passes"
        for show in ("1", "0"):
            r = w.call({"cmd": "simbatch", "cpu": cpu, "cases": pack_cases([case, case]), "regs": regnames,
                        "space": str(cfg["space"]), "show": show, "steps": "1", "timeout": "5"})
            a, b = parse_results(r["results"], 2)
            kind = payload["kind"]
            if kind == "crash" and 1 in (a["status"], b["status"]):
                return True, "crashes"
            if kind == "hang" and 2 in (a["status"], b["status"]):
                return True, "hangs"
            if kind == "exit" and 3 in (a["status"], b["status"]):
                return True, "exit called"
            if kind == "nondeterministic" and a["raw"] != b["raw"]:
                return True, "differs"
            if kind == "outside_memory" and (a["outside"] or any(x >= cfg["space"] for x in a["diffs"])):
                return True, "outside"
            if kind == "pc_not_next_instruction" and pc_mismatch(cpu, case, a):
                return True, pc_mismatch(cpu, case, a)
        return False, "passes"
    finally:
        w.close()
