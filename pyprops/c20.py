"""C20 Linked object code is placed once, its calls bound to the final addresses."""
import os, re, shutil, struct
from hypothesis import strategies as st

from nvlib import (Stats, Violation, hyp_run, shard_seed, load_known, run_cli, new_scratch)
import formats

PROP = "C20"
RULE = ("Hypothesis call graphs over 2..8 functions spread over 1..3 generated ELF32 relocatable objects (own writer: "
        ".text, .rel.text with R_MIPS_26 entries, .symtab/.strtab, optional junk sections, both byte orders) packed as "
        ".o files or into an ar archive with symbol table; a mips32/mips program at a generated .org calls a subset "
        "with jal. The sanitized CLI links them; from the hex image and the listing's symbol table the check requires: "
        "every function in the transitive closure of the program's calls appears exactly once at its symbol's address "
        "with the object's bytes, every jal field (program and imported code) equals target>>2, the image is exactly "
        "program + needed functions (unreferenced functions absent); an unresolved symbol or a non-ELF .o must give "
        "exit 1. non-trivial = call chain f->g plus an unreferenced function; distinct key = (graph shape, container, "
        "byte order)")
ASSUMPTIONS = ["only global function symbols with st_size>0 and R_MIPS_26 relocations against global symbols are "
               "generated (what the import parser documents)", "link addresses stay below 0x10000000 (jal region)"]

NOP = 0x00000000
JAL = 0x0c000000


def u32(v, be):
    return struct.pack(">I" if be else "<I", v & 0xffffffff)


def build_obj(funcs, externs, be, junk, ext_type=0):
    """funcs: list of (name, words [int or ('jal', target_name)]); returns ELF32 .o bytes"""
    e = ">" if be else "<"
    text = b""
    syms = [("", 0, 0, 0, 0)]                     # name, value, size, info, shndx
    relocs = []
    names = {}
    offsets = {}
    for name, words in funcs:
        offsets[name] = len(text)
        for w in words:
            if isinstance(w, tuple):
                relocs.append((len(text), w[1]))
                text += u32(JAL, be)
            else:
                text += u32(w, be)
    for name, words in funcs:
        syms.append((name, offsets[name], 4 * len(words), (1 << 4) | 2, 1))
    for name in externs:
        # undefined (SHN_UNDEF) reference: NOTYPE, or FUNC as GNU as writes it after '.type callee, @function'
        syms.append((name, 0, 0, (1 << 4) | ext_type, 0))
    strtab = b"\0"
    sym_index = {}
    symtab = b""
    for i, (name, value, size, info, shndx) in enumerate(syms):
        off = 0
        if name:
            off = len(strtab)
            strtab += name.encode() + b"\0"
        sym_index[name] = i
        symtab += struct.pack(e + "IIIBBH", off, value, size, info, 0, shndx)
    rel = b""
    for off, target in relocs:
        rel += struct.pack(e + "II", off, (sym_index[target] << 8) | 4)
    secnames = ["", ".text", ".rel.text", ".symtab", ".strtab", ".shstrtab"]
    extra = []
    if junk:
        # other sections, including ones whose names merely start like the ones the importer looks for
        names_ = {1: [".data", ".comment"], 2: [".text.unlikely", ".comment"], 3: [".textual", ".strtab.old"],
                  4: [".text.startup", ".rel.text.unlikely"]}[junk]
        secnames += names_
        extra = [u32(0x0000000d, be) * 6, b"GCC: (junk) 1.0\0"]
    shstr = b""
    name_off = {}
    for n in secnames:
        name_off[n] = len(shstr)
        shstr += n.encode() + b"\0"
    bodies = [b"", text, rel, symtab, strtab, shstr] + extra
    # layout
    off = 52
    offs = []
    for b in bodies:
        off += (-off) % 4
        offs.append(off)
        off += len(b)
    shoff = off + ((-off) % 4)
    hdr = b"\x7fELF" + bytes([1, 2 if be else 1, 1, 0]) + b"\0" * 8
    hdr += struct.pack(e + "HHIIIIIHHHHHH", 1, 8, 1, 0, 0, shoff, 0x1000 if be else 0, 52, 0, 0, 40, len(bodies), 5)
    out = bytearray(hdr)
    for b, o in zip(bodies, offs):
        out += b"\0" * (o - len(out))
        out += b
    out += b"\0" * (shoff - len(out))
    types = [0, 1, 9, 2, 3, 3] + [1, 1][:len(extra)]
    flags = [0, 6, 0, 0, 0, 0] + [3, 0][:len(extra)]
    links = [0, 0, 3, 4, 0, 0] + [0, 0][:len(extra)]
    infos = [0, 0, 1, 1, 0, 0] + [0, 0][:len(extra)]
    ents = [0, 0, 8, 16, 0, 0] + [0, 0][:len(extra)]
    for i, n in enumerate(secnames):
        out += struct.pack(e + "IIIIIIIIII", name_off[n], types[i], flags[i], 0, offs[i], len(bodies[i]), links[i],
                           infos[i], 4, ents[i])
    return bytes(out)


def build_ar(members, symtab):
    """members: list of (name, bytes); symtab: list of (symbol, member index)"""
    def hdr(name, size):
        return ("%-16s%-12s%-6s%-6s%-8s%-10d`\n" % (name, "0", "0", "0", "644", size)).encode()
    out = b"!<arch>\n"
    body = []
    # first compute member offsets: symbol table size depends on the symbols only
    names = b"".join(s.encode() + b"\0" for s, _ in symtab)
    st_size = 4 + 4 * len(symtab) + len(names)
    pos = 8 + 60 + st_size + (st_size & 1)
    offs = []
    for n, b in members:
        offs.append(pos)
        pos += 60 + len(b) + (len(b) & 1)
    st = struct.pack(">I", len(symtab)) + b"".join(struct.pack(">I", offs[m]) for _, m in symtab) + names
    out += hdr("/", len(st)) + st + (b"\n" if len(st) & 1 else b"")
    for n, b in members:
        out += hdr(n + "/", len(b)) + b + (b"\n" if len(b) & 1 else b"")
    return out


@st.composite
def case(draw):
    nf = draw(st.integers(2, 8))
    names = ["fn_%c%d" % ("abcdefgh"[i], i) for i in range(nf)]
    # call graph: edges only to higher index or arbitrary (cycles allowed: f0 -> f1 -> f0)
    funcs = {}
    for i, n in enumerate(names):
        nw = draw(st.integers(1, 6))
        words = []
        for k in range(nw):
            c = draw(st.integers(0, 4))
            if c == 0 and nf > 1:
                t = draw(st.sampled_from([x for x in names if x != n] or names))
                words.append(("jal", t))
                words.append(NOP)
            else:
                # an ordinary MIPS word that is not a jal: addiu $t0,$t0,imm / or / nop
                words.append(draw(st.sampled_from([0x25080000 | draw(st.integers(0, 0xffff)), 0x01095025, NOP,
                                                   0x8d090004, 0x03e00008])))
        words += [0x03e00008, NOP]          # jr $ra ; nop
        funcs[n] = words
    nobj = draw(st.integers(1, min(3, nf)))
    assign = [draw(st.integers(0, nobj - 1)) for _ in names]
    for k in range(nobj):
        if k not in assign:
            assign[k % nf] = k
    be = draw(st.booleans())
    container = draw(st.sampled_from(["ar", "ar", "o"]))
    junk = draw(st.sampled_from([0, 0, 1, 2, 3, 4]))
    called = sorted(set(draw(st.lists(st.sampled_from(names), min_size=1, max_size=3))))
    org = draw(st.sampled_from([0x0, 0x1000, 0x12340, 0x400000, 0x08900000]))
    pre = draw(st.integers(0, 3))
    ext_type = draw(st.sampled_from([0, 0, 2]))
    # archive members that are not objects (odd and even sizes: a pad byte follows an odd sized member)
    ar_extra = draw(st.lists(st.tuples(st.integers(0, 3), st.sampled_from([1, 2, 13, 14, 33, 100, 101])), max_size=2))
    return dict(names=names, funcs=funcs, assign=assign, nobj=nobj, be=be, container=container, junk=junk,
                called=called, org=org, pre=pre, ext_type=ext_type, ar_extra=ar_extra)


def closure(c):
    need = []
    todo = list(c["called"])
    while todo:
        n = todo.pop(0)
        if n in need:
            continue
        need.append(n)
        for w in c["funcs"][n]:
            if isinstance(w, tuple) and w[1] not in need:
                todo.append(w[1])
    return need


class Checker:
    def __init__(self, stats):
        self.s = stats
        self.dir = new_scratch("c20cli")
        self.known = load_known(PROP)

    def close(self):
        shutil.rmtree(self.dir, ignore_errors=True)

    def known_match(self, kind, c):
        for f in self.known:
            m = f.get("match", {})
            if kind not in m.get("kinds", [kind]):
                continue
            p = m.get("pred")
            if p == "container_o" and c["container"] == "o":
                return f["id"]
            if p == "big_endian_object" and c["be"]:
                return f["id"]
        return None

    def write_inputs(self, c):
        d = self.dir
        for fn in os.listdir(d):
            os.unlink(os.path.join(d, fn))
        objs = []
        for k in range(c["nobj"]):
            mine = [(n, c["funcs"][n]) for n, a in zip(c["names"], c["assign"]) if a == k]
            ext = sorted(set(w[1] for n, ws in mine for w in ws if isinstance(w, tuple)) - set(n for n, _ in mine))
            objs.append(("obj%d.o" % k, build_obj(mine, ext, c["be"], c["junk"], c.get("ext_type", 0)), [n for n, _ in mine]))
        files = []
        if c["container"] == "ar":
            members = [(fn, b, ns) for fn, b, ns in objs]
            for j, (pos, size) in enumerate(c.get("ar_extra", [])):
                members.insert(min(pos, len(members)), ("NOTES%d" % j, bytes((65 + (i % 26)) for i in range(size)), []))
            symtab = [(n, i) for i, (_, _, ns) in enumerate(members) for n in ns]
            data = build_ar([(fn, b) for fn, b, _ in members], symtab)
            open(os.path.join(d, "lib.a"), "wb").write(data)
            files = ["lib.a"]
        else:
            for fn, b, _ in objs:
                open(os.path.join(d, fn), "wb").write(b)
                files.append(fn)
        lines = [".mips" if c["be"] else ".mips32", ".org 0x%x" % c["org"], "main:"]
        for _ in range(c["pre"]):
            lines.append("  addiu $t0, $t0, 1")
        for n in c["called"]:
            lines += ["  jal %s" % n, "  nop"]
        lines += ["  jr $ra", "  nop", "prog_end:"]
        src = "\n".join(lines) + "\n"
        open(os.path.join(d, "prog.asm"), "w").write(src)
        return src, files

    def check(self, c):
        src, files = self.write_inputs(c)
        rc, out, err, to = run_cli("naken_asm_san", ["-l", "-type", "hex", "-o", "out.hex", "prog.asm"] + files,
                                   self.dir, timeout=60)
        base = dict(engine="c20", case={k: v for k, v in c.items()}, src=src)
        if to:
            self.s.inconclusive += 1
            return "timeout"

        def fail(what, kind, observed):
            fid = self.known_match(kind, c)
            if fid:
                self.s.known_hits.setdefault(fid, dict(kind=kind, observed=observed))
                self.s.excluded_known += 1
                return "known"
            raise Violation(dict(base, what=what, kind=kind, observed=observed))

        if rc not in (0, 1):
            return fail("naken_asm ended with status %s while linking" % rc, "bad_status", err[-1500:])
        if rc != 0 and c["be"]:
            # big endian objects are not supported by the import code: a clean rejection is what the statement asks
            self.s.count("class.big_endian_rejected_cleanly")
            if os.path.exists(os.path.join(self.dir, "out.hex")):
                return fail("link job rejected but an output file was left", "file_left", out[-300:])
            return "rejected_unsupported"
        if rc != 0:
            return fail("valid link job rejected", "rejected", out[-500:])
        img = formats.read_hex(open(os.path.join(self.dir, "out.hex"), "rb").read())[0]
        lst = open(os.path.join(self.dir, "out.lst"), "rb").read().decode("latin-1")
        syms = {}
        for line in lst.split("\n"):
            m = re.match(r"^\s*(\S+) ([0-9a-f]{8}) (\d+)", line)
            if m and m.group(1) != "LABEL":
                syms[m.group(1)] = int(m.group(2), 16)
        need = closure(c)
        be = c["be"]

        def word(a):
            b = bytes(img.get(a + i, 0) for i in range(4))
            return struct.unpack(">I" if be else "<I", b)[0]

        prog_end = syms.get("prog_end")
        if prog_end is None:
            return fail("program symbols missing from the listing", "no_symbols", list(syms)[:10])
        covered = set(range(c["org"], prog_end))
        # program's own jal fields
        a = c["org"] + 4 * c["pre"]
        for n in c["called"]:
            if n not in syms:
                return fail("referenced function %s has no symbol" % n, "missing_symbol", sorted(syms))
            w = word(a)
            if (w >> 26) != 3 or (w & 0x03ffffff) != (syms[n] >> 2) & 0x03ffffff:
                return fail("jal in the program does not target the final address of %s" % n, "wrong_jal_program",
                            dict(at=hex(a), word=hex(w), target=hex(syms[n])))
            a += 8
        for n in need:
            if n not in syms:
                return fail("needed function %s was not linked (no symbol)" % n, "missing_function", sorted(syms))
            base_a = syms[n]
            for k, w in enumerate(c["funcs"][n]):
                got = word(base_a + 4 * k)
                if any((base_a + 4 * k + j) not in img for j in range(4)):
                    return fail("bytes of %s missing from the image" % n, "missing_bytes", hex(base_a + 4 * k))
                if isinstance(w, tuple):
                    tgt = syms.get(w[1])
                    if tgt is None or (got >> 26) != 3 or (got & 0x03ffffff) != (tgt >> 2) & 0x03ffffff:
                        return fail("jal inside imported %s does not target the final address of %s" % (n, w[1]),
                                    "wrong_jal_import", dict(at=hex(base_a + 4 * k), word=hex(got),
                                                             target=None if tgt is None else hex(tgt)))
                elif got != w:
                    return fail("bytes of imported %s differ from the object file" % n, "wrong_bytes",
                                dict(at=hex(base_a + 4 * k), expected=hex(w), image=hex(got)))
            rng = set(range(base_a, base_a + 4 * len(c["funcs"][n])))
            if rng & covered:
                return fail("imported %s overlaps other code (placed more than once / on top of something)" % n,
                            "overlap", hex(base_a))
            covered |= rng
        extra = sorted(set(img) - covered)
        if extra:
            return fail("image contains bytes beyond the program and the needed functions (unreferenced function "
                        "included or a function placed twice)", "extra_bytes", [hex(x) for x in extra[:6]])
        for n in c["names"]:
            if n not in need and n in syms:
                return fail("unreferenced function %s got a symbol" % n, "unreferenced_included", hex(syms[n]))
        return "ok"

    def check_error(self, tag):
        d = self.dir
        for fn in os.listdir(d):
            os.unlink(os.path.join(d, fn))
        c = dict(names=["fn_a0"], funcs={"fn_a0": [NOP, 0x03e00008, NOP]}, assign=[0], nobj=1, be=False,
                 container="ar", junk=False, called=["fn_a0"], org=0x1000, pre=0)
        src, files = self.write_inputs(c)
        if tag == "unresolved":
            src = src.replace("jal fn_a0", "jal fn_missing_zz")
            open(os.path.join(d, "prog.asm"), "w").write(src)
        elif tag == "not_elf_o":
            open(os.path.join(d, "bad.o"), "wb").write(b"this is not an object file\n" * 4)
            files = ["bad.o"]
        elif tag == "not_archive_a":
            open(os.path.join(d, "bad.a"), "wb").write(b"garbage" * 10)
            files = ["bad.a"]
        elif tag == "missing_file":
            files = ["nothere.a"]
        rc, out, err, to = run_cli("naken_asm_san", ["-type", "hex", "-o", "out.hex", "prog.asm"] + files, d, timeout=60)
        if to:
            self.s.inconclusive += 1
            return
        if rc != 1 or os.path.exists(os.path.join(d, "out.hex")):
            fid = None
            for f in self.known:
                if f.get("match", {}).get("pred") == "error_tag" and tag in f["match"].get("tags", []):
                    fid = f["id"]
            if fid:
                self.s.known_hits.setdefault(fid, dict(tag=tag, rc=rc))
                self.s.excluded_known += 1
                return
            raise Violation(dict(engine="c20", mode="error", tag=tag, what="link error case '%s' not rejected with "
                                 "status 1" % tag, kind="error_accepted",
                                 observed=dict(rc=rc, out=out[-300:], err=err[-800:])))


def shape(c):
    need = closure(c)
    edges = sum(1 for n in c["names"] for w in c["funcs"][n] if isinstance(w, tuple))
    return (len(c["names"]), len(need), edges, c["nobj"], c["container"], c["be"])


def run(tier, seed, shard, nshards):
    s = Stats()
    ck = Checker(s)

    def test(c):
        s.evaluations += 1
        res = ck.check(c)
        s.count("result." + res)
        s.count("container." + c["container"])
        s.count("endian." + ("big" if c["be"] else "little"))
        need = closure(c)
        chain = any(isinstance(w, tuple) for n in c["called"] for w in c["funcs"][n])
        if chain and len(need) < len(c["names"]):
            s.nt(shape(c))
            s.count("class.chain+unreferenced")
            if len(s.samples) < 3:
                s.sample(dict(called=c["called"], needed=need, functions=c["names"], container=c["container"],
                              big_endian=c["be"], org=hex(c["org"])))

    try:
        try:
            for i, tag in enumerate(["unresolved", "not_elf_o", "not_archive_a", "missing_file"]):
                if i % nshards == shard:
                    s.evaluations += 1
                    s.count("error_case." + tag)
                    s.nt(("error", tag))
                    ck.check_error(tag)
        except Violation as v:
            s.violations.append(v.payload)
        n = 1800 if tier == "quick" else 6000
        hyp_run(test, case(), n, shard_seed(seed, shard, "c20"), s)
    finally:
        ck.close()
    return s


def replay(payload):
    s = Stats()
    ck = Checker(s)
    ck.known = []
    try:
        try:
            if payload.get("mode") == "error":
                ck.check_error(payload["tag"])
            else:
                c = payload["case"]
                c["funcs"] = {k: [tuple(w) if isinstance(w, list) else w for w in v] for k, v in c["funcs"].items()}
                ck.check(c)
        except Violation as v:
            return True, v.payload
        return False, "passes"
    finally:
        ck.close()
