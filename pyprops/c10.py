"""C10 Conditional assembly includes exactly the branch its condition selects."""
import os, shutil
from hypothesis import strategies as st

from nvlib import (Worker, WorkerCrash, WorkerTimeout, Stats, Violation, hyp_run, shard_seed, load_known,
                   run_cli, new_scratch)

PROP = "C10"
RULE = ("Hypothesis programs: a prelude of numeric .define / .set / labels, then trees (depth<=5, sequences and "
        "nesting) of .if/.ifdef/.ifndef/.else/.endif (also # spellings) whose branches hold distinct marker bytes, "
        "labels, .defines, flag defines, macro definitions and further conditionals; conditions are ASTs over "
        "defined() ! == < > <= >= && || ( ) numbers defines symbols. An independent evaluator (C semantics, && over "
        "||, ! tightest, one comparison per operand pair) selects branches; expected image = markers of taken "
        "branches in order, expected symbols = labels of taken branches; names defined only in untaken branches must "
        "stay undefined for later tests. Malformed/unterminated conditionals must be rejected: a fixed list of "
        "condition-level malformations plus ONE generated structural corruption of a generated tree at a generated "
        "conditional (missing .endif, second .else directly after the first or before the .endif, missing .if line, "
        "extra .endif, stray .else/.endif at top level), at any depth and in taken and untaken branches. non-trivial = nesting "
        "depth>=2 with an untaken branch that itself contains a conditional; distinct key = (tree shape, operator set)")
ASSUMPTIONS = ["'!' is never applied twice in a row (whether !!x normalises to 0/1 is not documented)",
               "conditions never reference a label defined later in the source (precondition in the statement)",
               "relational/equality operators are not chained without parentheses (their mutual precedence is not documented)",
               "numbers in conditions are non-negative decimal or 0x literals"]


# ------------------------------------------------------------- condition AST
def ev(c, env):
    """env: dict(defs={name:int|None}, syms={name:int}, macros=set) -> int (C truth values)"""
    k = c[0]
    if k == "num":
        return c[1]
    if k == "def":
        return env["defs"][c[1]]
    if k == "sym":
        return env["syms"][c[1]]
    if k == "defined":
        n = c[1]
        return 1 if (n in env["defs"] or n in env["syms"] or n in env["macros"]) else 0
    if k == "not":
        return 0 if ev(c[1], env) != 0 else 1
    if k == "par":
        return ev(c[1], env)
    if k == "cmp":
        a, b = ev(c[2], env), ev(c[3], env)
        return int({"==": a == b, "<": a < b, ">": a > b, "<=": a <= b, ">=": a >= b}[c[1]])
    if k == "and":
        return int(all(ev(t, env) != 0 for t in c[1]))
    if k == "or":
        return int(any(ev(t, env) != 0 for t in c[1]))
    raise ValueError(c)


def rc(c):
    k = c[0]
    if k == "num":
        return c[2]
    if k in ("def", "sym"):
        return c[1]
    if k == "defined":
        return "defined(%s)" % c[1]
    if k == "not":
        return "!" + rc(c[1])
    if k == "par":
        return "(" + rc(c[1]) + ")"
    if k == "cmp":
        return "%s %s %s" % (rc(c[2]), c[1], rc(c[3]))
    if k == "and":
        return " && ".join(rc(t) for t in c[1])
    if k == "or":
        return " || ".join(rc(t) for t in c[1])
    raise ValueError(c)


def opset(c, acc):
    k = c[0]
    if k in ("not", "par"):
        acc.add("!" if k == "not" else "()")
        opset(c[1], acc)
    elif k == "cmp":
        acc.add(c[1])
        opset(c[2], acc)
        opset(c[3], acc)
    elif k in ("and", "or"):
        acc.add("&&" if k == "and" else "||")
        for t in c[1]:
            opset(t, acc)
    elif k == "defined":
        acc.add("defined")
    return acc


@st.composite
def prim(draw, depth, values, names):
    c = draw(st.integers(0, 9))
    if c <= 2:
        v = draw(st.sampled_from([0, 1, 2, 3, 5, 7, 100, 255, 65535, 0x7fffffff]))
        return ("num", v, str(v) if draw(st.booleans()) else "0x%x" % v)
    if c <= 4 and values:
        n, kind = draw(st.sampled_from(values))
        return (kind, n)
    if c <= 6 and names:
        return ("defined", draw(st.sampled_from(names)))
    if c == 7:
        inner = draw(prim(depth, values, names))
        if inner[0] == "not":        # '!!x' (normalising double negation) is not documented: never generated
            inner = inner[1]
        return ("not", inner)
    if c == 8 and depth > 0:
        return ("par", draw(cond(depth - 1, values, names)))
    return ("num", 1, "1")


@st.composite
def cmp_or_prim(draw, depth, values, names):
    if draw(st.integers(0, 2)) == 0:
        return ("cmp", draw(st.sampled_from(["==", "<", ">", "<=", ">="])),
                draw(prim(depth, values, names)), draw(prim(depth, values, names)))
    return draw(prim(depth, values, names))


@st.composite
def and_term(draw, depth, values, names):
    n = draw(st.sampled_from([1, 1, 2, 2, 3]))
    ts = [draw(cmp_or_prim(depth, values, names)) for _ in range(n)]
    return ts[0] if n == 1 else ("and", ts)


@st.composite
def cond(draw, depth, values, names):
    n = draw(st.sampled_from([1, 1, 2, 2, 3]))
    ts = [draw(and_term(depth, values, names)) for _ in range(n)]
    return ts[0] if n == 1 else ("or", ts)


# symbols defined after the conditional structure (forward references from branch bodies); their names look like
# conditional directives on purpose.  mov.w #sym, r10 = 3a 40 lo hi (value is not a constant-generator value)
TRAILER = [("ifg_shadow", 0x1234), ("else_count", 0x1235), ("endif_mask", 0x1236), ("iflag", 0x1237),
           ("ifdef_x", 0x1238), ("ifndef_y", 0x1239)]


# --------------------------------------------------------------- program AST
class Gen:
    def __init__(self):
        self.marker = 0
        self.nlabel = 0
        self.ndef = 0
        self.nmac = 0
        self.names = ["ghost0", "ghost1", "GHOST_X"]   # every name ever mentioned (earlier in source)
        self.values = []                                # (name, kind) usable as numbers: prelude only


@st.composite
def block(draw, g, depth):
    items = []
    n = draw(st.integers(0, 4))
    for _ in range(n):
        c = draw(st.integers(0, 11))
        if c <= 3 or g.marker > 240:
            if g.marker > 240:
                continue
            g.marker += 1
            items.append(("marker", g.marker))
        elif c == 4 and draw(st.booleans()):
            items.append(("imm", draw(st.sampled_from([t[0] for t in TRAILER]))))
        elif c == 5:
            name = "lb%d" % g.nlabel
            g.nlabel += 1
            items.append(("label", name))
            g.names.append(name)
        elif c == 6:
            name = "DF%d" % g.ndef
            g.ndef += 1
            v = draw(st.sampled_from([None, 0, 1, 5, 300]))
            items.append(("define", name, v, draw(st.sampled_from([".define", "#define"]))))
            g.names.append(name)
        elif c == 7:
            name = "mc%d" % g.nmac
            g.nmac += 1
            items.append(("macro", name))
            g.names.append(name)
        elif depth > 0:
            kind = draw(st.sampled_from(["if", "if", "if", "ifdef", "ifndef"]))
            if kind == "if":
                cnd = draw(cond(2, g.values, list(g.names)))
            else:
                cnd = draw(st.sampled_from(g.names))
            then = draw(block(g, depth - 1))
            els = draw(block(g, depth - 1)) if draw(st.booleans()) else None
            pre = draw(st.sampled_from([".", ".", "#"]))
            items.append(("cond", kind, cnd, then, els, pre))
    return items


@st.composite
def program(draw):
    g = Gen()
    prelude = []
    for i in range(draw(st.integers(0, 3))):
        v = draw(st.sampled_from([0, 1, 2, 7, 255, 1000]))
        prelude.append(("define", "PV%d" % i, v, ".define"))
        g.names.append("PV%d" % i)
        g.values.append(("PV%d" % i, "def"))
    for i in range(draw(st.integers(0, 2))):
        v = draw(st.sampled_from([0, 1, 3, 65535]))
        prelude.append(("set", "sv%d" % i, v))
        g.names.append("sv%d" % i)
        g.values.append(("sv%d" % i, "sym"))
    for i in range(draw(st.integers(0, 2))):
        g.marker += 1
        prelude.append(("marker", g.marker))
        prelude.append(("label", "pl%d" % i))
        g.names.append("pl%d" % i)
        g.values.append(("pl%d" % i, "sym"))
    body = draw(block(g, draw(st.integers(1, 5))))
    body2 = draw(block(g, 2))
    return prelude + body + body2


def model(prog):
    env = dict(defs={}, syms={}, macros=set())
    img = []
    labels = {}
    info = dict(maxdepth=0, untaken_with_cond=False)

    def contains_cond(b):
        return b is not None and any(it[0] == "cond" for it in b)

    def walk(items, depth):
        info["maxdepth"] = max(info["maxdepth"], depth)
        for it in items:
            k = it[0]
            if k == "marker":
                img.extend([it[1], it[1] ^ 0xff])      # two bytes: keeps msp430 instructions word aligned
            elif k == "imm":
                v = dict(TRAILER)[it[1]]
                img.extend([0x3a, 0x40, v & 0xff, v >> 8])
            elif k == "label":
                env["syms"][it[1]] = len(img)
                labels[it[1]] = len(img)
            elif k == "define":
                env["defs"][it[1]] = it[2]
            elif k == "set":
                env["syms"][it[1]] = it[2]
                labels[it[1]] = it[2]
            elif k == "macro":
                env["macros"].add(it[1])
            elif k == "cond":
                _, kind, cnd, then, els, pre = it
                if kind == "if":
                    t = ev(cnd, env) != 0
                else:
                    d = cnd in env["defs"] or cnd in env["syms"] or cnd in env["macros"]
                    t = d if kind == "ifdef" else not d
                if t:
                    if contains_cond(els) and depth + 1 >= 2:
                        info["untaken_with_cond"] = True
                    walk(then, depth + 1)
                else:
                    if contains_cond(then) and depth + 1 >= 2:
                        info["untaken_with_cond"] = True
                    if els is not None:
                        walk(els, depth + 1)
    walk(prog, 0)
    for n, v in TRAILER:
        labels[n] = v
    return img, labels, info


def render(prog, ind=0):
    out = []
    pad = "  " * ind
    for it in prog:
        k = it[0]
        if k == "marker":
            out.append(pad + ".db %d, %d" % (it[1], it[1] ^ 0xff))
        elif k == "imm":
            out.append(pad + "mov.w #%s, r10" % it[1])
        elif k == "label":
            out.append("%s:" % it[1])
        elif k == "define":
            out.append(pad + "%s %s%s" % (it[3], it[1], "" if it[2] is None else " %d" % it[2]))
        elif k == "set":
            out.append(pad + ".set %s = %d" % (it[1], it[2]))
        elif k == "macro":
            out.append(pad + ".macro %s" % it[1])
            out.append(pad + "  .db 251")
            out.append(pad + ".endm")
        elif k == "cond":
            _, kind, cnd, then, els, pre = it
            out.append(pad + "%s%s %s" % (pre, kind, rc(cnd) if kind == "if" else cnd))
            out.extend(render(then, ind + 1))
            if els is not None:
                out.append(pad + pre + "else")
                out.extend(render(els, ind + 1))
            out.append(pad + pre + "endif")
    return out


def shape(prog):
    s = []
    for it in prog:
        if it[0] == "cond":
            s.append((it[1], shape(it[3]), None if it[4] is None else shape(it[4])))
    return tuple(s)


def all_ops(prog, acc):
    for it in prog:
        if it[0] == "cond":
            if it[1] == "if":
                opset(it[2], acc)
            else:
                acc.add(it[1])
            all_ops(it[3], acc)
            if it[4] is not None:
                all_ops(it[4], acc)
    return acc


def has_nested_ifndef_in_untaken(prog):
    """an .ifndef lexically inside a branch (used by known-finding predicates)"""
    def anyifndef(b):
        if b is None:
            return False
        for it in b:
            if it[0] == "cond":
                if it[1] == "ifndef" or anyifndef(it[3]) or anyifndef(it[4]):
                    return True
        return False
    for it in prog:
        if it[0] == "cond":
            if anyifndef(it[3]) or anyifndef(it[4]):
                return True
    return False


MALFORMED = [
    ("missing_endif", ".msp430\n.if 1\n.db 1\n"),
    ("missing_endif_untaken", ".msp430\n.if 0\n.db 1\n"),
    ("missing_endif_ifdef", ".msp430\n.ifdef NOPE\n.db 1\n"),
    ("missing_endif_nested", ".msp430\n.if 1\n.if 1\n.db 1\n.endif\n.db 2\n"),
    ("missing_endif_after_else", ".msp430\n.if 0\n.db 1\n.else\n.db 2\n"),
    ("stray_else", ".msp430\n.db 1\n.else\n.db 2\n"),
    ("stray_endif", ".msp430\n.db 1\n.endif\n.db 2\n"),
    ("dangling_and", ".msp430\n.if 1 &&\n.db 1\n.endif\n"),
    ("dangling_or", ".msp430\n.if 1 ||\n.db 1\n.endif\n"),
    ("dangling_cmp", ".msp430\n.if 1 ==\n.db 1\n.endif\n"),
    ("empty_if", ".msp430\n.if\n.db 1\n.endif\n"),
    ("double_operator", ".msp430\n.if 1 && || 0\n.db 1\n.endif\n"),
    ("unbalanced_open", ".msp430\n.if (1\n.db 1\n.endif\n"),
    ("unbalanced_close", ".msp430\n.if 1)\n.db 1\n.endif\n"),
    ("undefined_name_in_if", ".msp430\n.if NOSUCHNAME == 1\n.db 1\n.endif\n"),
    ("ifdef_without_name", ".msp430\n.ifdef\n.db 1\n.endif\n"),
    ("ifdef_number", ".msp430\n.ifdef 5\n.db 1\n.endif\n"),
    ("defined_without_paren", ".msp430\n.if defined X\n.db 1\n.endif\n"),
    ("defined_unclosed", ".msp430\n.if defined(X\n.db 1\n.endif\n"),
    ("two_else", ".msp430\n.if 1\n.db 1\n.else\n.db 2\n.else\n.db 3\n.endif\n"),
    ("trailing_garbage", ".msp430\n.if 1 2\n.db 1\n.endif\n"),
]


CORRUPT_KINDS = ["drop_endif", "double_else", "double_else_end", "drop_if", "extra_endif", "stray_else_top",
                 "stray_endif_top", "else_before_if_end"]


def count_conds(prog):
    n = 0
    for it in prog:
        if it[0] == "cond":
            n += 1 + count_conds(it[3]) + (count_conds(it[4]) if it[4] is not None else 0)
    return n


def render_corrupt(prog, target, kind, state=None, ind=0):
    """render() with ONE structural corruption applied to the target-th conditional (preorder):
       drop_endif       its .endif is missing (unterminated)
       double_else      a second .else directly after its .else (one is added first if it has none)
       double_else_end  a second .else just before its .endif
       drop_if          its .if line is missing (its .else/.endif become stray or steal the enclosing conditional)
       extra_endif      a second .endif after its .endif
    returns (lines, depth of the corrupted conditional, True if the corruption was applied)"""
    state = state if state is not None else dict(n=0, depth=None)
    out = []
    pad = "  " * ind
    for it in prog:
        if it[0] != "cond":
            out.extend(render([it], ind))
            continue
        _, knd, cnd, then, els, pre = it
        me = state["n"]
        state["n"] += 1
        hit = me == target
        if hit:
            state["depth"] = ind
        if not (hit and kind == "drop_if"):
            out.append(pad + "%s%s %s" % (pre, knd, rc(cnd) if knd == "if" else cnd))
        out.extend(render_corrupt(then, target, kind, state, ind + 1)[0])
        if els is not None or (hit and kind in ("double_else", "double_else_end")):
            out.append(pad + pre + "else")
            if hit and kind == "double_else":
                out.append(pad + pre + "else")
            if els is not None:
                out.extend(render_corrupt(els, target, kind, state, ind + 1)[0])
            if hit and kind == "double_else_end":
                out.append(pad + "  .db 250, 5")
                out.append(pad + pre + "else")
        if not (hit and kind == "drop_endif"):
            out.append(pad + pre + "endif")
        if hit and kind == "extra_endif":
            out.append(pad + pre + "endif")
    return out, state["depth"], state["depth"] is not None


def corrupt_source(prog, target, kind):
    """(source, tag) of a structurally malformed variant of prog; None if not applicable"""
    n = count_conds(prog)
    if kind in ("stray_else_top", "stray_endif_top") or n == 0:
        lines = render(prog)
        # top-level positions: lines that are not indented and not inside a conditional
        depth = 0
        tops = [0]
        inmac = False
        for i, l in enumerate(lines):
            t = l.strip().lstrip(".#")
            if t.startswith(("if ", "ifdef ", "ifndef ")):
                depth += 1
            elif t == "endif":
                depth -= 1
            elif t.startswith("macro "):
                inmac = True                   # a macro body is only text until it is invoked (never, here)
            elif t == "endm":
                inmac = False
            if depth == 0 and not inmac:
                tops.append(i + 1)
        pos = tops[target % len(tops)]
        word = ".else" if kind in ("stray_else_top", "double_else", "double_else_end") else ".endif"
        lines = lines[:pos] + [word] + lines[pos:]
        tag = "gen:stray_" + word[1:] + "_top"
        dep = 0
    else:
        lines, dep, ok = render_corrupt(prog, target % n, kind)
        if not ok:
            return None
        tag = "gen:" + kind
    tail = [".org 0x1234"]
    for nme, v in TRAILER:
        tail += ["%s:" % nme, "  .db 0xee"]
    return ".msp430\n" + "\n".join(lines) + "\n" + "\n".join(tail) + "\n", tag, dep


def full_source(prog):
    tail = [".org 0x1234"]
    for n, v in TRAILER:
        tail += ["%s:" % n, "  .db 0xee"]
    return ".msp430\n" + "\n".join(render(prog)) + "\n" + "\n".join(tail) + "\n"


class Checker:
    def __init__(self, stats, worker):
        self.s = stats
        self.w = worker
        self.known = load_known(PROP)

    def known_match(self, kind, prog, src, tag=None):
        for f in self.known:
            m = f.get("match", {})
            if kind not in m.get("kinds", [kind]):
                continue
            pred = m.get("pred")
            if pred == "malformed_tag" and tag is not None and tag in m.get("tags", []):
                return f["id"]
            if pred == "nested_ifndef" and prog is not None and has_nested_ifndef_in_untaken(prog):
                return f["id"]
        return None

    def asm(self, src):
        try:
            return self.w.asm(src)
        except (WorkerCrash, WorkerTimeout) as c:
            return c

    def fail(self, what, kind, prog, src, expected, observed, tag=None, extra=None):
        fid = self.known_match(kind, prog, src, tag)
        if fid:
            self.s.known_hits.setdefault(fid, dict(src=src, expected=expected, observed=observed))
            self.s.excluded_known += 1
            return
        p = dict(what=what, kind=kind, src=src, expected=expected, observed=observed, engine="c10")
        if extra:
            p.update(extra)
        raise Violation(p)

    def check_program(self, prog):
        src = full_source(prog)
        img, labels, info = model(prog)
        r = self.asm(src)
        extra = dict(mode="program", model_image=img, model_syms=labels)
        if isinstance(r, WorkerCrash):
            return self.fail("assembler crashed", "crash", prog, src, "image", r.report[-1200:], extra=extra)
        if isinstance(r, WorkerTimeout):
            return self.fail("assembler hung", "hang", prog, src, "image", "timeout", extra=extra)
        if not r.ok:
            return self.fail("valid conditional program rejected", "rejected", prog, src, "accepted",
                             "; ".join(r.diag())[:300], extra=extra)
        body = {a: b for a, b in r.image.items() if a < 0x1234}
        tail = {a: b for a, b in r.image.items() if a >= 0x1234}
        got = [body[a] for a in sorted(body)]
        contiguous = sorted(body) == list(range(len(body))) and tail == {0x1234 + i: 0xee for i in range(len(TRAILER))}
        if got != img or not contiguous:
            return self.fail("assembled markers differ from the branches the conditions select", "wrong_image",
                             prog, src, img, got, extra=extra)
        syms = {n: a for (n, sc), a in r.symdict(2).items() if sc == 0}
        if syms != labels:
            return self.fail("symbols differ (a label of an untaken branch leaked, or one of a taken branch is missing)",
                             "wrong_symbol", prog, src, labels, syms, extra=extra)

    def check_malformed(self, tag, src, cli):
        r = self.asm(src)
        exp = "rejected with a diagnostic (exit status 1)"
        extra = dict(mode="malformed", tag=tag)
        if isinstance(r, WorkerCrash):
            return self.fail("crash on malformed conditional", "crash", None, src, exp, r.report[-1200:], tag, extra)
        if isinstance(r, WorkerTimeout):
            return self.fail("hang on malformed conditional", "hang", None, src, exp, "timeout", tag, extra)
        if r.ok:
            return self.fail("malformed conditional (%s) accepted" % tag, "accepted_malformed", None, src, exp,
                             dict(image=[r.image[a] for a in sorted(r.image)], out=r.out[-200:]), tag, extra)
        if not r.diag():
            return self.fail("malformed conditional rejected without a diagnostic", "no_diag", None, src, exp,
                             r.out[-200:], tag, extra)
        if cli:
            d = new_scratch("c10cli")
            try:
                with open(os.path.join(d, "t.asm"), "w") as f:
                    f.write(src)
                rc_, out, err, to = run_cli("naken_asm_san", ["-o", "t.hex", "t.asm"], d, timeout=60)
                if to:
                    self.s.inconclusive += 1
                elif rc_ != 1 or os.path.exists(os.path.join(d, "t.hex")):
                    return self.fail("CLI: malformed conditional (%s) not rejected with status 1" % tag,
                                     "accepted_malformed" if rc_ == 0 else "cli_status", None, src, exp,
                                     dict(rc=rc_, file=os.path.exists(os.path.join(d, "t.hex")), out=out[-300:],
                                          err=err[-500:]), tag, extra)
            finally:
                shutil.rmtree(d, ignore_errors=True)


def run(tier, seed, shard, nshards):
    s = Stats()
    w = Worker("c10")
    ck = Checker(s, w)

    def test(prog):
        s.evaluations += 1
        img, labels, info = model(prog)
        s.count("depth=%d" % info["maxdepth"])
        ops = all_ops(prog, set())
        for o in ops:
            s.count("op." + o)
        if info["maxdepth"] >= 2 and info["untaken_with_cond"]:
            s.nt((shape(prog), tuple(sorted(ops))))
            s.count("class.nontrivial")
            if len(s.samples) < 5:
                s.sample(dict(src="\n".join(render(prog))))
        ck.check_program(prog)

    try:
        try:
            for i, (tag, src) in enumerate(MALFORMED):
                if i % nshards != shard:
                    continue
                s.evaluations += 1
                s.count("malformed." + tag)
                s.nt(("malformed", tag))
                ck.check_malformed(tag, src, cli=True)
                # same with # spelling and inside an outer taken conditional
                ck.check_malformed(tag, src.replace("\n.", "\n#").replace("#msp430", ".msp430").replace("#db", ".db"),
                                   cli=False)
        except Violation as v:
            s.violations.append(v.payload)
        n = 700 if tier == "quick" else 15000
        hyp_run(test, program(), n, shard_seed(seed, shard, "c10"), s)

        def test_corrupt(case):
            prog, target, kind = case
            c = corrupt_source(prog, target, kind)
            if c is None:
                return
            src, tag, dep = c
            s.evaluations += 1
            s.count("malformed." + tag)
            s.count("malformed.gen.depth=%d" % min(dep, 3))
            s.nt(("malformed", tag, min(dep, 3), shape(prog)))
            ck.check_malformed(tag, src, cli=False)

        hyp_run(test_corrupt, st.tuples(program(), st.integers(0, 40), st.sampled_from(CORRUPT_KINDS[:7])),
                300 if tier == "quick" else 6000, shard_seed(seed, shard, "c10m"), s)
    finally:
        w.close()
    return s


def replay(payload):
    s = Stats()
    w = Worker("c10r")
    try:
        try:
            r = w.asm(payload["src"])
        except (WorkerCrash, WorkerTimeout) as c:
            return payload["kind"] in ("crash", "hang"), type(c).__name__
        if payload["kind"] in ("crash", "hang"):
            return False, "no crash"
        if payload.get("mode") == "malformed":
            if payload["kind"] == "cli_status":
                d = new_scratch("c10cli")
                try:
                    open(os.path.join(d, "t.asm"), "w").write(payload["src"])
                    rc_, out, err, to = run_cli("naken_asm_san", ["-o", "t.hex", "t.asm"], d, timeout=60)
                    bad = (not to) and (rc_ != 1 or os.path.exists(os.path.join(d, "t.hex")))
                    return bad, "rc=%s" % rc_
                finally:
                    shutil.rmtree(d, ignore_errors=True)
            if r.ok:
                return True, "still accepted"
            if payload["kind"] == "no_diag":
                return not r.diag(), "diag"
            return False, "rejected now"
        if not r.ok:
            return payload["kind"] == "rejected", "rejected"
        got = [r.image[a] for a in sorted(r.image) if a < 0x1234]
        if got != payload["model_image"]:
            return True, "image differs: %s" % got
        syms = {n: a for (n, sc), a in r.symdict(2).items() if sc == 0}
        if syms != payload["model_syms"]:
            return True, "symbols differ"
        return False, "passes"
    finally:
        w.close()
