"""C02 Two-pass consistency: label addresses and sizes identical in both passes."""
import random, re
from hypothesis import strategies as st

from nvlib import (Worker, WorkerCrash, WorkerTimeout, Stats, Violation, hyp_run, shard_seed, load_known)
import progs

PROP = "C02"
RULE = ("Hypothesis programs for the 47 CPUs with an instruction corpus: 2 segments (.org small / .org large), 2..8 "
        "labels each followed by a unique 8-byte marker, 1..8 instructions whose numeric operand is replaced by a "
        "label reference (forward or backward, small- or large-valued), a .set symbol (re-assigned across a size "
        "boundary) or a literal, with and without -optimize. Templates come from tests/comparison texts; their "
        "operand holes are classified by experiment (lengths for the values 2, 0x80, 0x1234, 0x12345) so that "
        "size-dependent forms are preferred. Oracles: (1) library interface of tests/symbol_address: every label has "
        "the same address after pass 1 and after pass 2 (pass 2 run with re-definitions overwriting); (2) black box: "
        "each label's marker bytes lie in the image exactly at the address the symbol table binds to the label. "
        "non-trivial = a forward reference inside a size-dependent instruction with a label after it; distinct key = "
        "(cpu, template, hole, direction, value class, optimize)")
ASSUMPTIONS = ["only programs the assembler accepts are judged (the statement quantifies over accepted programs)",
               "no conditionals or macros are generated (their independence from later symbols is the statement's precondition)"]

NUM = re.compile(r"(?<![A-Za-z_$.0-9])(0x[0-9a-fA-F]+|[0-9]+)(?![A-Za-z_0-9.(])|(?<![A-Za-z_$.0-9])([0-9]+)(?=\()")
CPUS = sorted(c for c in progs.CPU_FILES if c not in ("ps2_ee", "pic32", "n64_rsp", "riscv64", "msp430x"))
EXTRA_TPL = {
    "msp430": ["mov.w #7, r5", "mov.w 2(r5), r6", "add.w #7, 0(r6)", "mov.w &100, r7", "cmp.w #7, 2(r7)", "jmp 20"],
    "msp430x": ["mov.w #7, r5", "mova #7, r5", "mov.w 2(r5), r6"],
    "6502": ["lda 100", "sta 100", "lda 100,x", "jmp 100", "adc 100,y", "bne 20"],
    "65816": ["lda 100", "sta 100", "lda 100,x", "jmp 100", "lda.l 100", "bra 20"],
    "68hc08": ["lda 100", "sta 100", "lda 4,x", "jmp 100", "cpx 100", "lda 4,sp"],
    "6809": ["lda 100", "sta 100", "lda 4,x", "jmp 100", "leax 4,y", "ldd 100"],
    "6800": ["ldaa 100", "staa 100", "jmp 100", "ldx 100"],
    "68000": ["bra 100", "bsr 100", "move.w 100, d0", "lea 100, a0", "jmp 100", "move.l #7, d1", "add.w 4(a0), d0"],
    "stm8": ["ld A, 100", "ld 100, A", "jp 100", "ldw X, 100", "ld A, (4,X)", "call 100"],
    "riscv": ["li x5, 7", "addi x5, x6, 7", "jal x1, 100", "beq x5, x6, 100", "lw x5, 4(x6)"],
    "mips": ["li $t0, 7", "addiu $t0, $t1, 7", "j 100", "beq $t0, $t1, 100", "lw $t0, 4($t1)", "la $t0, 100"],
    "epiphany": ["mov r0, #7", "add r1, r2, #7", "b 100", "ldr r0, [r1, #4]", "movt r0, #7"],
    "z80": ["ld a, 7", "ld hl, 100", "jp 100", "jr 20", "ld a, (100)", "ld (ix+4), a"],
    "8051": ["mov a, #7", "ljmp 100", "sjmp 20", "mov 100, a", "ajmp 100"],
    "avr8": ["ldi r16, 7", "rjmp 20", "jmp 100", "lds r16, 100", "brne 20"],
    "thumb": ["mov r0, #7", "b 100", "ldr r0, [r1, #4]", "add r0, #7"],
    "arm": ["mov r0, #7", "b 100", "ldr r0, [r1, #4]", "add r0, r1, #7"],
    "xtensa": ["movi a2, 7", "j 100", "l32i a2, a3, 4", "addi a2, a3, 7"],
    "m8c": ["mov A, 7", "ljmp 100", "jmp 100", "mov A, [100]"],
    "pdp11": ["mov #7, r0", "jmp 100", "br 20", "mov 100, r1"],
    "tms9900": ["li r0, 7", "b @100", "jmp 20", "mov @100, r1"],
}

_pool_cache = {}
_INFO = {}


def universe(cpu, worker=None, info=None):
    """instruction texts: hand-written forms + the comparison corpus; with a worker also one accepted rendering of the
    disassembler per mnemonic and operand shape (forms and CPUs the corpus does not have)"""
    seen = set()
    out = []
    for t in EXTRA_TPL.get(cpu, []) + (progs.comparison_lines(cpu) if cpu in progs.CPU_FILES else []):
        if t not in seen:
            seen.add(t)
            out.append(t)
    if worker is not None and cpu not in ("tms1000", "tms1100"):
        # (tms1000/tms1100: the program counter is not linear - chapters/pages and an LFSR order -, so a label operand
        # inside their 4-bit constant instructions says nothing about placement; only their corpus forms are used)
        import c06
        ci = (info or {}).get(progs.CPU_FILES.get(cpu, cpu), dict(unit=1, align=1))
        shapes = set(re.sub(r"[A-Za-z$%]+[0-9]+", "R", NUM.sub("N", t)) for t in out)
        extra = 0
        for t in c06.rendering_texts(worker, cpu, ci["unit"], ci["align"]):
            k = re.sub(r"[A-Za-z$%]+[0-9]+", "R", NUM.sub("N", t))
            if k in shapes or not NUM.search(t):
                continue
            shapes.add(k)
            out.append(t)
            extra += 1
            if extra >= 120:
                break
    return out


def analyse(worker, cpu, known_bad):
    """[(template, hole_span, lengths{value: nbytes}, variable, hole_index, is_known_bad)] over the whole universe"""
    if cpu in _pool_cache:
        return _pool_cache[cpu]
    out = []
    directive = progs.CPU_FILES.get(cpu, cpu)
    for t in universe(cpu, worker, _INFO):
        holes = [m.span(1) if m.group(1) else m.span(2) for m in NUM.finditer(t)]
        for hi, span in enumerate(holes[:2]):
            lens = {}
            for v in (2, 0x80, 0x1234, 0x12344):
                txt = t[:span[0]] + ("0x%x" % v) + t[span[1]:]
                src = ".%s\n.org 0x40\n%s\n" % (directive, txt)
                try:
                    r = worker.asm(src)
                except (WorkerCrash, WorkerTimeout):
                    continue
                if r.ok and r.image:
                    lens[v] = len(r.image)
            if len(lens) >= 1:
                out.append((t, span, lens, len(set(lens.values())) > 1, hi, known_id(known_bad, t, span)))
    _pool_cache[cpu] = out
    return out


def variants(cpu, tpl):
    """canonical one-instruction programs around one template/hole: (name, source)"""
    t, span = tpl[0], tpl[1]
    d = progs.CPU_FILES.get(cpu, cpu)
    def ins(rep):
        return "  " + t[:span[0]] + rep + t[span[1]:]
    def lab(n):
        return "lab%d:\n  .dc64 0xa5a5c3c3%08x" % (n, 0x5a000000 + n)
    out = []
    for org in (0x0, 0x8, 0x7c, 0x100, 0x1230, 0x7ffc):
        out.append(("fwd@%x" % org, "\n".join([".%s" % d, ".org 0x%x" % org, ins("lab0"), lab(0), lab(1)]) + "\n"))
        out.append(("bwd@%x" % org, "\n".join([".%s" % d, ".org 0x%x" % org, lab(0), ins("lab0"), lab(1)]) + "\n"))
    out.append(("fwd_far", "\n".join([".%s" % d, ".org 0x10", ins("lab1"), lab(0), ".org 0x12340", lab(1), lab(2)]) + "\n"))
    out.append(("fwd_to_zero", "\n".join([".%s" % d, ".org 0x100", ins("lab0"), lab(1), ".org 0", lab(0)]) + "\n"))
    out.append(("bwd_zero", "\n".join([".%s" % d, ".org 0", lab(0), ".org 0x100", ins("lab0"), lab(1)]) + "\n"))
    for a, b in ((2, 0x400), (0x400, 2), (0x80, 0x12344), (0, 0x100)):
        out.append(("set_%x_%x" % (a, b), "\n".join([".%s" % d, ".org 0x20", ".set sv0 = 0x%x" % a, ins("sv0"), lab(0),
                                                      ".set sv0 = 0x%x" % b, ins("sv0"), lab(1)]) + "\n"))
    out.append(("fwd_set_zero", "\n".join([".%s" % d, ".org 0x100", ins("sv0"), lab(0), ".set sv0 = 0", lab(1)]) + "\n"))
    if cpu == "msp430":
        # the same programs without the directive (default CPU)
        out += [(n + "_nodirective", src.split("\n", 1)[1]) for n, src in list(out)]
    return out


@st.composite
def program(draw, pools):
    # CPUs whose every template is a listed open finding are not generated (excluded by construction)
    cpu = draw(st.sampled_from(sorted(c for c in pools if any(not p[5] for p in pools[c]))))
    pool = [p for p in pools[cpu] if not p[5]]
    var = [p for p in pool if p[3]]
    nlab = draw(st.integers(2, 8))
    ninstr = draw(st.integers(1, 8))
    optimize = draw(st.booleans())
    seg0 = draw(st.sampled_from([0x0, 0x8, 0x10, 0x40, 0x80]))
    seg1 = draw(st.sampled_from([0x100, 0x200, 0x1000, 0x1238, 0x8000, 0x12340]))
    # split labels/instructions over the two segments in a random interleaving
    slots = ["L"] * nlab + ["I"] * ninstr
    order = draw(st.permutations(slots))
    cut = draw(st.integers(0, len(order)))
    nset = draw(st.integers(0, 2))
    items = []
    li = 0
    for pos, s in enumerate(order):
        seg = 0 if pos < cut else 1
        if s == "L":
            items.append(("label", li, seg))
            li += 1
        else:
            tpl = draw(st.sampled_from(var)) if (var and draw(st.integers(0, 3)) != 0) else draw(st.sampled_from(pool))
            kind = draw(st.sampled_from(["lab", "lab", "lab", "set", "lit"]))
            if kind == "lab":
                op = ("lab", draw(st.integers(0, nlab - 1)))
            elif kind == "set" and nset:
                op = ("set", draw(st.integers(0, nset - 1)))
            else:
                op = ("lit", draw(st.sampled_from(sorted(tpl[2]))))
            items.append(("instr", tpl, op, seg))
        if nset and draw(st.integers(0, 5)) == 0:
            items.append(("setdef", draw(st.integers(0, nset - 1)),
                          draw(st.sampled_from([0, 2, 0x7f, 0x80, 0xff, 0x100, 0x400, 0x1234, 0x12344])), seg))
    # every .set symbol must be assigned before its first use: put initial assignments first
    pre = [("setdef", i, draw(st.sampled_from([2, 0x80, 0x400, 0x1234])), 0) for i in range(nset)]
    return (cpu, optimize, seg0, seg1, pre + items)


def render(case):
    cpu, optimize, seg0, seg1, items = case
    bpa = None
    lines = [".%s" % progs.CPU_FILES.get(cpu, cpu)]
    if cpu == "msp430" and len(items) % 3 == 0:
        lines = ["; no CPU directive: the MSP430 is the default CPU"]
    cur = None
    for it in items:
        seg = it[-1]
        if seg != cur:
            lines.append(".org 0x%x" % (seg0 if seg == 0 else seg1))
            cur = seg
        if it[0] == "label":
            lines.append("lab%d:" % it[1])
            lines.append("  .dc64 0xa5a5c3c3%08x" % (0x5a000000 + it[1]))
        elif it[0] == "setdef":
            lines.append(".set sv%d = 0x%x" % (it[1], it[2]))
        else:
            tpl, op = it[1], it[2]
            t, span = tpl[0], tpl[1]
            if op[0] == "lab":
                rep = "lab%d" % op[1]
            elif op[0] == "set":
                rep = "sv%d" % op[1]
            else:
                rep = "0x%x" % op[1]
            lines.append("  " + t[:span[0]] + rep + t[span[1]:])
    return "\n".join(lines) + "\n"


def marker_bytes(n, endian):
    v = (0xa5a5c3c3 << 32) | (0x5a000000 + n)
    return v.to_bytes(8, "little" if endian == 0 else "big")


class Checker:
    def __init__(self, stats, worker):
        self.s = stats
        self.w = worker

    def asm(self, src, flags):
        try:
            return self.w.asm(src, flags=flags)
        except (WorkerCrash, WorkerTimeout) as c:
            return c

    def check(self, src, optimize, nlab_hint=None):
        """returns 'invalid' | 'ok'; raises Violation"""
        fl = "O" if optimize else ""
        base = dict(src=src, optimize=optimize, engine="c02")
        r = self.asm(src, fl)
        if isinstance(r, WorkerCrash):
            raise Violation(dict(base, what="assembler crashed", kind="crash", observed=r.report[-1200:]))
        if isinstance(r, WorkerTimeout):
            raise Violation(dict(base, what="assembler hung", kind="hang", observed="timeout"))
        if not r.ok:
            return "invalid"
        labels = {n: a for (n, sc), a in r.symdict(2).items() if sc == 0 and n.startswith("lab")}
        # oracle 2: marker of label n lies exactly at the bound address
        blob_addr = sorted(r.image)
        for name, a in sorted(labels.items()):
            n = int(name[3:])
            mb = marker_bytes(n, r.endian)
            at = a * r.bpa
            got = bytes(r.image.get(at + i, 0x100) & 0xff if (at + i) in r.image else 0 for i in range(8))
            present = all((at + i) in r.image for i in range(8))
            if not present or got != mb:
                # where is it really?
                real = None
                for start in blob_addr:
                    if all(r.image.get(start + i) == mb[i] for i in range(8)):
                        real = start
                        break
                raise Violation(dict(base, what="the bytes following a label are not at the address bound to the label",
                                     kind="label_vs_placement", expected=dict(label=name, bound_byte_address=at),
                                     observed=dict(marker_found_at=real)))
        # oracle 1: tests/symbol_address interface
        r2 = self.asm(src, fl + "S")
        if isinstance(r2, (WorkerCrash, WorkerTimeout)):
            raise Violation(dict(base, what="assembler crashed/hung in re-definition mode", kind="crash",
                                 observed=str(type(r2))))
        if r2.ok:
            s1 = {n: a for (n, sc), a in r2.symdict(1).items() if n.startswith("lab")}
            s2 = {n: a for (n, sc), a in r2.symdict(2).items() if n.startswith("lab")}
            if s1 != s2:
                d = {n: (s1.get(n), s2.get(n)) for n in sorted(set(s1) | set(s2)) if s1.get(n) != s2.get(n)}
                raise Violation(dict(base, what="label addresses differ between pass 1 and pass 2 (name: pass1, pass2)",
                                     kind="pass_mismatch", observed=d))
        return "ok"


def known_bad_set():
    """cpu -> [(compiled regex over the template with the hole written as '@', finding id)]"""
    bad = {}
    for f in load_known(PROP):
        m = f.get("match", {})
        if m.get("pred") == "cpu_template_regex":
            bad.setdefault(m["cpu"], []).append((re.compile(m["regex"]), f["id"]))
    return bad


def known_id(kb_cpu, t, span):
    at = t[:span[0]] + "@" + t[span[1]:]
    for rx, fid in kb_cpu:
        if rx.match(at):
            return fid
    return None


def run(tier, seed, shard, nshards):
    import os
    survey = os.environ.get("NV_SURVEY") == "1"
    s = Stats()
    w = Worker("c02")
    ck = Checker(s, w)
    kb = known_bad_set()
    _INFO.update({c["name"]: c for c in w.cpus()})
    rev = set(progs.CPU_FILES.values())
    allc = list(CPUS) + sorted(n for n in _INFO if n not in rev and n not in progs.CPU_FILES and n not in ("ps2_ee_vu0", "ps2_ee_vu1"))
    mine = [c for i, c in enumerate(allc) if i % nshards == shard]
    pools = {}
    for c in mine:
        p = analyse(w, c, kb.get(c, []))
        if p:
            pools[c] = p
            s.count("templates.%s" % c, len(p))
            s.count("templates_variable.%s" % c, sum(1 for x in p if x[3]))

    # part A: exhaustive over the template universe x canonical variants
    try:
        for cpu in sorted(pools):
            for tpl in pools[cpu]:
                key = "%s|%d" % (tpl[0], tpl[4])
                for opt in (False, True) if cpu in ("msp430", "msp430x") else (False,):
                    for vname, src in variants(cpu, tpl):
                        s.evaluations += 1
                        try:
                            res = ck.check(src, opt)
                        except Violation as v:
                            if tpl[5]:
                                fid = tpl[5]
                                s.known_hits.setdefault(fid, dict(cpu=cpu, src=src, kind=v.payload["kind"]))
                                s.excluded_known += 1
                                s.count("enum.known_failure")
                                continue
                            if survey:
                                s.notes.append("SURVEY\t%s\t%s\t%s\t%s" % (cpu, key, vname, v.payload["kind"]))
                                continue
                            raise
                        s.count("enum." + res)
                        if res == "ok" and tpl[3]:
                            s.nt((cpu, tpl[0], tpl[4], vname, opt))
    except Violation as v:
        s.violations.append(v.payload)

    def test(case):
        cpu, optimize, seg0, seg1, items = case
        src = render(case)
        s.evaluations += 1
        try:
            res = ck.check(src, optimize)
        except Violation as v:
            if survey:
                s.notes.append("SURVEYH\t%s\t%s\t%s" % (cpu, v.payload["kind"], src.replace("\n", "\\n")))
                return
            raise
        s.count("result." + res)
        if res != "ok":
            return
        s.count("cpu." + cpu)
        # non-trivial: forward label reference inside a size-dependent instruction with a label after it
        label_pos = {}
        order = sorted(range(len(items)), key=lambda i: (items[i][-1], i))     # segment 0 first, then 1
        rank = {i: k for k, i in enumerate(order)}
        for i, it in enumerate(items):
            if it[0] == "label":
                label_pos[it[1]] = rank[i]
        for i, it in enumerate(items):
            if it[0] == "instr" and it[1][3] and it[2][0] == "lab":
                tgt = label_pos.get(it[2][1])
                if tgt is not None and tgt > rank[i]:
                    s.count("class.fwd_ref_in_variable_instr")
                    s.nt((cpu, it[1][0], it[1][4], "fwd", it[-1], optimize))
                    if len(s.samples) < 4:
                        s.sample(dict(cpu=cpu, optimize=optimize, src=src))
                elif tgt is not None:
                    s.count("class.bwd_ref_in_variable_instr")
                    s.nt((cpu, it[1][0], it[1][4], "bwd", it[-1], optimize))
            if it[0] == "instr" and it[2][0] == "set":
                s.count("class.set_symbol_operand")

    try:
        if pools:
            n = 500 if tier == "quick" else 12000
            hyp_run(test, program(pools), n, shard_seed(seed, shard, "c02"), s)
    finally:
        w.close()
    return s


def selfcheck(m, tier):
    bad = []
    if m["classes"].get("class.fwd_ref_in_variable_instr", 0) < 50:
        bad.append("fewer than 50 accepted programs with a forward reference in a size-dependent instruction")
    ok = m["classes"].get("result.ok", 0)
    tot = ok + m["classes"].get("result.invalid", 0)
    if ok < 0.2 * max(1, tot):
        bad.append("fewer than 20%% of generated programs are accepted (%d of %d)" % (ok, tot))
    return bad


def replay(payload):
    s = Stats()
    w = Worker("c02r")
    ck = Checker(s, w)
    try:
        try:
            ck.check(payload["src"], payload["optimize"])
        except Violation as v:
            return True, v.payload
        return False, "passes"
    finally:
        w.close()
