"""C16 naken_asm never crashes, hangs or corrupts memory, whatever the source text (libFuzzer campaign + replay tier)."""
import os, re, glob, shutil, hashlib, subprocess, time, base64
from nvlib import (Stats, Violation, shard_seed, load_known, run_cli)
import nvbuild

PROP = "C16"
TARGETS = ["fuzz_asm", "naken_asm_san"]
RULE = ("coverage-guided fuzzing (libFuzzer, 16 independent processes, ASan + UBSan bounds/div-by-zero/null, "
        "-timeout=10) of harness/fuzz_asm.cpp: option byte + source text -> two-pass in-process assembly exactly as "
        "main/naken_asm.cpp does it, from a file in a scratch directory that also holds a self-including and two "
        "mutually including files, with listing and an output file of a fuzzed type. Seeds: hand-written macro / "
        "conditional / include programs, the first lines of tests/comparison for every CPU, small files of samples/, "
        "the committed regression inputs; 1 shard in 4 starts from an empty corpus. A grammar-aware custom mutator "
        "adds line/token deletion and duplication, identifier/number/string blow-up to 120..20000 characters, macro / "
        ".if / .scope nesting to 2..256 levels, recursive macros/defines/includes, extreme numbers and addresses. "
        "Oracle inside the target: no sanitizer report or signal, an intercepted exit() carries status 1; time-outs "
        "are re-run through the sanitized CLI with a 60 s limit and count only if still running. Sources that request "
        "huge output (.repeat/.resb/.fill/.align with large literals) are rejected by the target and counted. "
        "non-trivial = corpus unit kept by libFuzzer (new coverage) ; evaluations = executions")
ASSUMPTIONS = ["work proportional to requested output (.repeat 100000 ...) is not a hang",
               "a failed assembly for which the library prints nothing is counted (failed_without_library_message), not judged: main() prints '*** Failed ***'"]

HAND = [
    b"\x02.msp430\n.org 0x100\nstart:\n  mov.w #1, r5\n  jmp start\n",
    b"\x12.macro M(a,b)\n  .db a, b\n.endm\n.msp430\nM(1,2)\nM(3,4)\n",
    b"\x22.define FOO 5\n.if FOO == 5\n.db 1\n.else\n.db 2\n.endif\n.ifdef BAR\n.db 3\n.endif\n",
    b"\x32.z80\n.include \"ok.inc\"\n  ld a, VALUE\nINCM(7)\n.binfile \"data.bin\"\n",
    b"\x42.68000\n.org 0x1000\nmain:\n  move.l #0x12345678, d0\n  bra.s main\n.dc32 main\n",
    b"\x52.mips\n.org 0x80000000\n  li $t0, 0x12345678\n  j 0x80000000\n  nop\n",
    b"\x62.arm\nx equ 5\n.set y=x*2\n  mov r0, #y\n.ascii \"hello\\n\"\n.align 32\n",
    b"\x72.6502\n.scope\nl: lda #1\n bne l\n.ends\n.func f\n rts\n.endf\n",
    b"\x03.riscv\n.repeat 3\n  addi x1, x1, 1\n.endr\n.dc64 0x7fffffffffffffff\n",
    b"\x13.avr8\n.org 0xffff\n  ldi r16, 0xff\n.export foo\nfoo:\n  ret\n",
    b"\x01.include \"self.inc\"\n", b"\x01.include \"ping.inc\"\n", b"\x00.macro R\nR\n.endm\nR\n",
    b"\x00.define A B\n.define B A\n.db A\n",
]
DICT = [".macro", ".endm", ".define", ".if", ".ifdef", ".ifndef", ".else", ".endif", ".include", ".binfile", ".org", ".db",
        ".dw", ".dc8", ".dc16", ".dc32", ".dc64", ".ascii", ".asciiz", ".align", ".repeat", ".endr", ".scope", ".ends",
        ".func", ".endf", ".set", "equ", ".export", ".entry_point", ".low_address", ".high_address", ".list",
        ".big_endian", ".little_endian", ".resb", ".resw", ".fill", ".bss", ".code", ".float", ".dq", "0x", "0b", "$",
        "defined(", "\\\n", "/*", "*/", ";", "\"", "'", ".msp430", ".msp430x", ".mips", ".68000", ".arm", ".z80", ".6502",
        ".riscv", ".avr8", ".8051", ".thumb", ".x86", ".powerpc", ".stm8", ".dspic", ".propeller", ".java", ".webasm"]


class Known:
    def __init__(self):
        self.items = []
        for f in load_known(PROP):
            m = f.get("match", {})
            if m.get("pred") == "crash_site":
                self.items.append((f["id"], m))

    def match(self, site):
        for fid, m in self.items:
            if any(sub in site for sub in m["sites"]):
                return fid
        return None

    def avoid(self):
        out = []
        for fid, m in self.items:
            out += ["%s\t%d" % (a["contains"].lower(), a["token_len"]) for a in m.get("avoid", [])]
        return out


def bin_path(name):
    return os.path.join(nvbuild.build_dir(nvbuild.repo_dir()), name)


def make_seeds(d, empty):
    os.makedirs(d, exist_ok=True)
    n = 0
    if empty:
        return 0
    for b in HAND:
        with open(os.path.join(d, "hand%02d" % n), "wb") as f:
            f.write(b)
        n += 1
    repo = nvbuild.repo_dir()
    for p in sorted(glob.glob(os.path.join(repo, "tests/comparison/*.txt"))):
        cpu = os.path.basename(p)[:-4]
        lines = []
        for l in open(p, errors="replace"):
            if "|" in l:
                lines.append("  " + l.split("|")[0].strip())
            if len(lines) >= 12:
                break
        if lines:
            with open(os.path.join(d, "cmp_" + cpu), "wb") as f:
                f.write(bytes([n & 0xff]) + (".%s\n.org 0x100\n" % cpu + "\n".join(lines) + "\n").encode("latin-1"))
            n += 1
    for p in sorted(glob.glob(os.path.join(repo, "samples/*/*.asm")))[:400]:
        try:
            if os.path.getsize(p) < 3000:
                with open(os.path.join(d, "smp_%03d" % n), "wb") as f:
                    f.write(bytes([n & 0xff]) + open(p, "rb").read())
                n += 1
        except OSError:
            pass
    for p in sorted(glob.glob("/verif/corpus/C16/*")):
        if os.path.isfile(p):
            shutil.copy(p, os.path.join(d, "reg_" + os.path.basename(p)))
            n += 1
    return n


def crash_site(report):
    """first frame inside /repo (file:function), or the UBSan location"""
    m = re.search(r"(/repo/\S+?):(\d+):\d+: runtime error: ([^\n]*)", report)
    if m:
        return "%s: %s" % (m.group(1)[6:], m.group(3)[:80]), m.group(0)[:300]
    m = re.search(r"C16-ORACLE: ([^\n]*)", report)
    if m:
        return "oracle: " + m.group(1)[:80], m.group(0)
    kind = re.search(r"ERROR: AddressSanitizer: (\S+)", report)
    fr = re.search(r"#\d+ 0x[0-9a-f]+ in (\S+)[^\n]* /repo/(\S+?):\d+", report)
    if kind or fr:
        return "%s in %s %s" % (kind.group(1) if kind else "signal", fr.group(2) if fr else "?", fr.group(1) if fr else "?"), \
            (kind.group(0) if kind else "") + " " + (fr.group(0) if fr else "")
    m = re.search(r"ERROR: libFuzzer: ([^\n]*)", report)
    return ("libFuzzer: " + m.group(1) if m else "unknown"), report[-300:]


def run_target_on(path, timeout=120, unit_timeout=60):
    env = dict(os.environ, ASAN_OPTIONS="detect_leaks=0", NV_FUZZ_TMP="/dev/shm" if os.path.isdir("/dev/shm") else "/verif/build")
    try:
        p = subprocess.run([bin_path("fuzz_asm"), "-timeout=%d" % unit_timeout, path], capture_output=True, timeout=timeout, env=env)
        return p.returncode, (p.stdout + p.stderr).decode("latin-1")
    except subprocess.TimeoutExpired as e:
        return None, "timeout"


def cleanup_scratch():
    for d in glob.glob("/dev/shm/nvfuzz_asm.*"):
        pid = d.rsplit(".", 1)[1]
        if not os.path.exists("/proc/" + pid):
            shutil.rmtree(d, ignore_errors=True)


def run(tier, seed, shard, nshards):
    s = Stats()
    known = Known()
    survey = os.environ.get("NV_SURVEY") == "1"
    budget = int(os.environ.get("NV_C16_SECONDS", "40" if tier == "quick" else "600"))
    base = "/verif/build/fuzz/c16/%s-%s/shard%02d" % (tier, seed, shard)
    shutil.rmtree(base, ignore_errors=True)
    os.makedirs(base)
    corpus = os.path.join(base, "corpus")
    nseeds = make_seeds(corpus, empty=(shard % 4 == 3))
    s.count("seed_files", nseeds)
    with open(os.path.join(base, "dict"), "w") as f:
        for i, w in enumerate(DICT):
            f.write('kw%d="%s"\n' % (i, w.replace("\\", "\\\\").replace('"', '\\"').replace("\n", "\\x0a")))
    avoid = known.avoid()
    with open(os.path.join(base, "avoid"), "w") as f:
        f.write("\n".join(avoid) + ("\n" if avoid else ""))
    tmpbase = "/dev/shm" if os.path.isdir("/dev/shm") else base
    env = dict(os.environ, ASAN_OPTIONS="detect_leaks=0", NV_FUZZ_TMP=tmpbase, NV_FUZZ_STATS=os.path.join(base, "stats"),
               NV_FUZZ_AVOID=os.path.join(base, "avoid"))
    # replay tier: committed regression inputs, shard 0 only
    if shard == 0:
        for p in sorted(glob.glob("/verif/corpus/C16/*")):
            rc, out = run_target_on(p)
            s.evaluations += 1
            s.count("regression_inputs_replayed")
            if rc != 0:
                site, detail = crash_site(out)
                fid = known.match(site)
                if fid:
                    s.known_hits.setdefault(fid, dict(site=site, input=os.path.basename(p)))
                    continue
                s.violations.append(dict(engine="c16", kind="regression", site=site, detail=detail,
                                         artifact_b64=base64.b64encode(open(p, "rb").read()).decode(),
                                         what="a committed regression input crashes the assembler again"))
    t_end = time.time() + budget
    rounds = 0
    sites_seen = {}
    totals = {}
    while time.time() < t_end - 5 and rounds < 8:
        rounds += 1
        left = int(t_end - time.time())
        art = os.path.join(base, "art%d" % rounds)
        os.makedirs(art, exist_ok=True)
        cmd = [bin_path("fuzz_asm"), "-seed=%d" % (shard_seed(seed, shard, "c16") % 2000000000 + rounds),
               "-max_total_time=%d" % left, "-timeout=10", "-rss_limit_mb=3000", "-max_len=8192", "-print_final_stats=1",
               "-artifact_prefix=" + art + "/", "-dict=" + os.path.join(base, "dict"), corpus]
        try:
            p = subprocess.run(cmd, capture_output=True, env=env, timeout=left + 120)
            log = (p.stdout + p.stderr).decode("latin-1")
        except subprocess.TimeoutExpired:
            log = ""
            s.inconclusive += 1
        with open(os.path.join(base, "log%d.txt" % rounds), "w") as f:
            f.write(log[-200000:])
        try:
            for l in open(os.path.join(base, "stats")):
                k, v = l.split()
                totals[k] = totals.get(k, 0) + int(v)
            os.remove(os.path.join(base, "stats"))
        except (OSError, ValueError):
            pass
        arts = sorted(glob.glob(art + "/*"))
        if not arts:
            break
        for a in arts:
            name = os.path.basename(a)
            data = open(a, "rb").read()
            if name.startswith(("crash-", "leak-")):
                rc, out = run_target_on(a)
                site, detail = crash_site(out if rc not in (0, None) else log)
                sites_seen[site] = sites_seen.get(site, 0) + 1
                if survey:
                    s.notes.append("SURVEY\t%s\t%s\t%s" % (site, detail.replace("\n", " ")[:200], a))
                    shutil.copy(a, "/verif/build/survey_c16_" + hashlib.sha1(site.encode()).hexdigest()[:10])
                    continue
                fid = known.match(site)
                if fid:
                    s.known_hits.setdefault(fid, dict(site=site))
                    s.excluded_known += 1
                    continue
                s.violations.append(dict(engine="c16", kind="crash", site=site, detail=detail,
                                         artifact_b64=base64.b64encode(data).decode(),
                                         source_head=data[1:400].decode("latin-1"),
                                         what="naken_asm crashed / corrupted memory on this source (sanitizer report or signal)"))
            elif name.startswith("timeout-"):
                # re-run through the CLI under a 60 s limit
                d = os.path.join(base, "to")
                os.makedirs(d, exist_ok=True)
                with open(os.path.join(d, "input.asm"), "wb") as f:
                    f.write(data[1:])
                rc, out, err, to = run_cli("naken_asm_san", ["-l", "input.asm"], cwd=d, timeout=60)
                if to:
                    if survey:
                        s.notes.append("SURVEY\thang\t%s" % a)
                        continue
                    fid = known.match("hang")
                    if fid:
                        s.known_hits.setdefault(fid, dict(site="hang"))
                        continue
                    s.violations.append(dict(engine="c16", kind="hang", site="hang", detail="still running after 60 s",
                                             artifact_b64=base64.b64encode(data).decode(), source_head=data[1:400].decode("latin-1"),
                                             what="naken_asm does not terminate on this source"))
                else:
                    s.count("timeouts_not_reproduced")
            else:
                s.count("artifact_ignored." + name.split("-")[0])
        if any(v >= 3 for v in sites_seen.values()):
            break
    s.evaluations += totals.get("exec", 0)
    for k, v in totals.items():
        s.count(k, v)
    s.count("fuzz_rounds", rounds)
    units = 0
    for p in glob.glob(corpus + "/*"):
        units += 1
        s.nt(("unit", os.path.basename(p)[:16]))
    s.count("corpus_units", units)
    if len(s.samples) < 2:
        for p in sorted(glob.glob(corpus + "/*"), key=os.path.getmtime)[-2:]:
            s.sample(dict(unit=os.path.basename(p), head=open(p, "rb").read()[1:120].decode("latin-1")))
    if not os.environ.get("NV_KEEP_FUZZ"):
        shutil.rmtree(base, ignore_errors=True)
    cleanup_scratch()
    return s


def replay(payload):
    d = "/verif/build/fuzz/c16/replay"
    os.makedirs(d, exist_ok=True)
    p = os.path.join(d, "input_%d" % os.getpid())
    with open(p, "wb") as f:
        f.write(base64.b64decode(payload["artifact_b64"]))
    try:
        if payload.get("kind") == "hang":
            rc, out = run_target_on(p, timeout=60, unit_timeout=20)
            return rc is None or rc != 0, "still running after 20 s"
        rc, out = run_target_on(p)
        if rc not in (0,):
            return True, crash_site(out)[1]
        return False, "passes"
    finally:
        os.remove(p)
        cleanup_scratch()
