"""C16 naken_asm never crashes, hangs or corrupts memory, whatever the source text (libFuzzer campaign + replay tier)."""
import os, re, glob, shutil, hashlib, subprocess, time, base64
from nvlib import (Stats, Violation, shard_seed, load_known, run_cli)
import nvbuild, fuzzdrv

PROP = "C16"
TARGETS = ["fuzz_asm", "naken_asm_san", "nvserve"]
RULE = ("coverage-guided fuzzing (libFuzzer, 16 independent processes, ASan + UBSan bounds/div-by-zero/null, "
        "-timeout=10) of harness/fuzz_asm.cpp: option byte + source text -> two-pass in-process assembly exactly as "
        "main/naken_asm.cpp does it, from a file in a scratch directory that also holds a self-including and two "
        "mutually including files, with listing and an output file of a fuzzed type. Seeds: hand-written macro / "
        "conditional / include programs, the first lines of tests/comparison for every CPU, small files of samples/, "
        "the committed regression inputs; 1 shard in 4 starts from an empty corpus. A grammar-aware custom mutator "
        "adds line/token deletion and duplication, identifier/number/string blow-up to 120..20000 characters, macro / "
        ".if / .scope nesting to 2..256 levels, recursive macros/defines/includes, extreme numbers and addresses. "
        "Oracle inside the target: no sanitizer report or signal, an intercepted exit() carries status 1; time-outs "
        "are re-run through the sanitized CLI with a 60 s limit and count only if still running. Sources that request "
        "huge output (.repeat/.resb/.fill/.align with large literals) are rejected by the target and counted. "
        "non-trivial = corpus unit kept by libFuzzer (new coverage) ; evaluations = executions")
ASSUMPTIONS = ["work proportional to requested output (.repeat 100000 ...) is not a hang",
               "a failed assembly for which the library prints nothing is counted (failed_without_library_message), not judged: main() prints '*** Failed ***'"]

HAND = [
    b"\x02.msp430\n.org 0x100\nstart:\n  mov.w #1, r5\n  jmp start\n",
    b"\x12.macro M(a,b)\n  .db a, b\n.endm\n.msp430\nM(1,2)\nM(3,4)\n",
    b"\x22.define FOO 5\n.if FOO == 5\n.db 1\n.else\n.db 2\n.endif\n.ifdef BAR\n.db 3\n.endif\n",
    b"\x32.z80\n.include \"ok.inc\"\n  ld a, VALUE\nINCM(7)\n.binfile \"data.bin\"\n",
    b"\x42.68000\n.org 0x1000\nmain:\n  move.l #0x12345678, d0\n  bra.s main\n.dc32 main\n",
    b"\x52.mips\n.org 0x80000000\n  li $t0, 0x12345678\n  j 0x80000000\n  nop\n",
    b"\x62.arm\nx equ 5\n.set y=x*2\n  mov r0, #y\n.ascii \"hello\\n\"\n.align 32\n",
    b"\x72.6502\n.scope\nl: lda #1\n bne l\n.ends\n.func f\n rts\n.endf\n",
    b"\x03.riscv\n.repeat 3\n  addi x1, x1, 1\n.endr\n.dc64 0x7fffffffffffffff\n",
    b"\x13.avr8\n.org 0xffff\n  ldi r16, 0xff\n.export foo\nfoo:\n  ret\n",
    b"\x01.include \"self.inc\"\n", b"\x01.include \"ping.inc\"\n", b"\x00.macro R\nR\n.endm\nR\n",
    b"\x00.define A B\n.define B A\n.db A\n",
]
DICT = [".macro", ".endm", ".define", ".if", ".ifdef", ".ifndef", ".else", ".endif", ".include", ".binfile", ".org", ".db",
        ".dw", ".dc8", ".dc16", ".dc32", ".dc64", ".ascii", ".asciiz", ".align", ".repeat", ".endr", ".scope", ".ends",
        ".func", ".endf", ".set", "equ", ".export", ".entry_point", ".low_address", ".high_address", ".list",
        ".big_endian", ".little_endian", ".resb", ".resw", ".fill", ".bss", ".code", ".float", ".dq", "0x", "0b", "$",
        "defined(", "\\\n", "/*", "*/", ";", "\"", "'", ".msp430", ".msp430x", ".mips", ".68000", ".arm", ".z80", ".6502",
        ".riscv", ".avr8", ".8051", ".thumb", ".x86", ".powerpc", ".stm8", ".dspic", ".propeller", ".java", ".webasm"]


def make_seeds(d, empty):
    os.makedirs(d, exist_ok=True)
    n = 0
    if empty:
        return 0
    for b in HAND:
        with open(os.path.join(d, "hand%02d" % n), "wb") as f:
            f.write(b)
        n += 1
    repo = nvbuild.repo_dir()
    for p in sorted(glob.glob(os.path.join(repo, "tests/comparison/*.txt"))):
        cpu = os.path.basename(p)[:-4]
        lines = []
        for l in open(p, errors="replace"):
            if "|" in l:
                lines.append("  " + l.split("|")[0].strip())
            if len(lines) >= 12:
                break
        if lines:
            with open(os.path.join(d, "cmp_" + cpu), "wb") as f:
                f.write(bytes([n & 0xff]) + (".%s\n.org 0x100\n" % cpu + "\n".join(lines) + "\n").encode("latin-1"))
            n += 1
    for p in sorted(glob.glob(os.path.join(repo, "samples/*/*.asm")))[:400]:
        try:
            if os.path.getsize(p) < 3000:
                with open(os.path.join(d, "smp_%03d" % n), "wb") as f:
                    f.write(bytes([n & 0xff]) + open(p, "rb").read())
                n += 1
        except OSError:
            pass
    for p in sorted(glob.glob("/verif/corpus/C16/*")):
        if os.path.isfile(p):
            shutil.copy(p, os.path.join(d, "reg_" + os.path.basename(p)))
            n += 1
    return n




def run(tier, seed, shard, nshards):
    s = Stats()
    budget = int(os.environ.get("NV_C16_SECONDS", "40" if tier == "quick" else "600"))

    def timeout_check(path, data):
        # re-run through the CLI under a 60 s limit
        d = "/verif/build/fuzz/c16/to_%d" % os.getpid()
        os.makedirs(d, exist_ok=True)
        try:
            with open(os.path.join(d, "input.asm"), "wb") as f:
                f.write(data[1:])
            rc, out, err, to = run_cli("naken_asm_san", ["-l", "input.asm"], cwd=d, timeout=60)
            return bool(to)
        finally:
            shutil.rmtree(d, ignore_errors=True)

    if os.environ.get("NV_C16_PART", "") == "structured":          # development aid: the structured part only
        import c16s
        c16s.part(s, tier, seed, shard, nshards)
        return s
    fuzzdrv.campaign(s, PROP, "fuzz_asm", tier, seed, shard, budget, lambda d: make_seeds(d, empty=(shard % 4 == 3)), DICT,
                     "/verif/corpus/C16/*", timeout_check=timeout_check,
                     what="naken_asm crashed / corrupted memory on this source (sanitizer report or signal)")
    import c16s
    c16s.part(s, tier, seed, shard, nshards)
    return s


def replay(payload):
    if payload.get("engine") == "c16s":
        import c16s
        return c16s.replay(payload)
    return fuzzdrv.replay(PROP, payload, "fuzz_asm")
