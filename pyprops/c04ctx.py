"""C04, operand contexts: the value of an expression must be the same wherever the expression is written.

Two oracles, both fed with Hypothesis expression ASTs whose reference value (exprmodel) is *steered* to a target t
by appending `- K` / `+ K` (K chosen from the reference value, so every expression reaches every context):

 direct   contexts whose effect on the image is known by construction (.org, .resb, .set + .dc32, .db/.dw lists,
          equ, and a few instruction immediates whose encodings come from the architecture manuals);
 diff     instruction templates of tests/comparison (one numeric hole, every CPU with a corpus): the statement
          assembled with the expression in the hole must give the same bytes as the statement assembled with the
          plain literal t in the hole (the value used is the value of the expression, whatever it is used for).
"""
from hypothesis import strategies as st
import exprmodel as em
from nvlib import WorkerCrash, WorkerTimeout, Violation
import c04 as base


def le(v, n):
    return (v & ((1 << (8 * n)) - 1)).to_bytes(n, "little")


def be(v, n):
    return le(v, n)[::-1]


def img(start, b):
    return {start + i: x for i, x in enumerate(b)}


CG16 = {0xffff: bytes([0x35, 0x43]), 0: bytes([0x05, 0x43]), 1: bytes([0x15, 0x43]), 2: bytes([0x25, 0x43]),
        4: bytes([0x25, 0x42]), 8: bytes([0x35, 0x42])}


def msp_imm(t):
    v = t & 0xffff
    out = [img(0, bytes([0x35, 0x40]) + le(v, 2))]
    if v in CG16:
        out.append(img(0, CG16[v]))
    return out


def merged(*parts):
    d = {}
    for p in parts:
        d.update(p)
    return d


# name, source with {E}, lo, hi, expected images (list of acceptable addr->byte maps), core (a plain literal failing
# here is a violation as well), lead_lit (expression must not start with '('), trail_lit (must not end with ')')
DIRECT = [
    ("org", ".msp430\n.org {E}\n.db 0x5a\n", 0, 0x7ffffff0, lambda t: [img(t, b"\x5a")], True, False, False),
    ("resb", ".msp430\n.db 1\n.resb {E}\nl1:\n.db 2\n", 0, 0x20000, lambda t: [merged(img(0, b"\x01"), img(1 + t, b"\x02"))],
     True, False, False),
    ("set_dc32", ".msp430\n.set sx = {E}\n.dc32 sx\n", -(1 << 31), (1 << 31) - 1, lambda t: [img(0, le(t, 4))], True, False, False),
    ("db_list", ".msp430\n.db 0x11, {E}, 0x22\n", -128, 255, lambda t: [img(0, bytes([0x11, t & 0xff, 0x22]))], True, False, False),
    ("dw_list", ".msp430\n.dw {E}, 0x2233\n", -32768, 65535, lambda t: [img(0, le(t, 2) + b"\x33\x22")], True, False, False),
    ("dc16_be", ".68000\n.dc16 0x1122, {E}\n", -32768, 65535, lambda t: [img(0, b"\x11\x22" + be(t, 2))], True, False, False),
    ("msp430_imm", ".msp430\n  mov.w #{E}, r5\n", -32768, 65535, msp_imm, True, False, False),
    ("msp430_abs", ".msp430\n  mov.w &{E}, r6\n", 0, 65535, lambda t: [img(0, bytes([0x16, 0x42]) + le(t, 2))], True, False, False),
    ("msp430_idx", ".msp430\n  mov.w {E}(r5), r6\n", -32768, 32767, lambda t: [img(0, bytes([0x16, 0x45]) + le(t, 2))],
     True, True, True),
    ("68000_imm32", ".68000\n  move.l #{E}, d0\n", -(1 << 31), (1 << 31) - 1, lambda t: [img(0, b"\x20\x3c" + be(t, 4))],
     False, False, False),
    ("riscv_addi", ".riscv\n  addi x5, x0, {E}\n", -2048, 2047,
     lambda t: [img(0, le(((t & 0xfff) << 20) | (5 << 7) | 0x13, 4))], False, True, False),
    ("z80_ld16", ".z80\n  ld hl, {E}\n", 0, 65535, lambda t: [img(0, b"\x21" + le(t, 2))], False, True, True),
    ("6502_imm", ".6502\n  lda #{E}\n", 0, 255, lambda t: [img(0, bytes([0xa9, t & 0xff]))], False, True, False),
    ("arm_mov", ".arm\n  mov r0, #{E}\n", 0, 255, lambda t: [img(0, le(0xe3a00000 | t, 4))], False, True, False),
    ("avr8_ldi", ".avr8\n  ldi r16, {E}\n", 0, 255, lambda t: [img(0, le(0xe000 | ((t & 0xf0) << 4) | (t & 0xf), 2))],
     False, True, False),
    ("8051_imm", ".8051\n  mov A, #{E}\n", 0, 255, lambda t: [img(0, bytes([0x74, t & 0xff]))], False, True, False),
]

TARGET_EDGE = [0, 1, 2, 4, 8, 3, 7, 9, 15, 16, 100, 127, 128, 200, 255, 256, 1000, 2047, 2048, 32767, 32768, 65535, 65536,
               0x12345, 0xffffff, 0x1000000, 0x7fffffff, -1, -2, -8, -100, -128, -129, -2048, -32768, -32769, -(1 << 31)]


def lit(v):
    return ("lit", v, str(v), "dec")


def plain(t):
    """text of a plain literal with value t"""
    return str(t)


def steer(e, t):
    """expression with reference value t built from e; None if e has no defined value"""
    try:
        v = em.eval_expr(e)
    except (em.NoValue, em.Ambiguous):
        return None
    if v == t:
        return e
    k = em.s64(v - t)
    if k == -(1 << 63):
        return None
    op, kk = ("-", k) if k >= 0 else ("+", -k)
    cand = list(e) + [op, ("", lit(kk))]
    try:
        if em.eval_expr(cand) == t:
            return cand
    except (em.NoValue, em.Ambiguous):
        pass
    cand = [("", lit(0)), "+", ("", ("par", list(e))), op, ("", lit(kk))]
    try:
        if em.eval_expr(cand) == t:
            return cand
    except (em.NoValue, em.Ambiguous):
        pass
    return None


@st.composite
def ctx_expr(draw, lead_lit, trail_lit, dollar_hex=False):
    e = list(draw(base.expr(draw(st.integers(0, 3)), dollar_hex)))
    if lead_lit and e[0][1][0] == "par":
        e[0] = (e[0][0], draw(base.literal(dollar_hex)))
    if trail_lit and e[-1][1][0] == "par":
        e[-1] = (e[-1][0], draw(base.literal(dollar_hex)))
    return e


@st.composite
def direct_case(draw):
    ci = draw(st.integers(0, len(DIRECT) - 1))
    name, tpl, lo, hi, exp, core, lead, trail = DIRECT[ci]
    t = draw(st.one_of(st.sampled_from([x for x in TARGET_EDGE if lo <= x <= hi] + [lo, hi]), st.integers(lo, hi)))
    e = draw(ctx_expr(lead, trail))
    sp = draw(st.integers(0, 1 << 30))
    return (ci, t, e, sp)


def render(e, sp_seed):
    import random
    rnd = random.Random(sp_seed)
    return em.render(e, lambda: rnd.choice(["", " ", " ", "  ", "\t"]))


def image_of(r):
    return dict(r.image)


class Ctx:
    def __init__(self, ck):
        self.ck = ck
        self.s = ck.s
        self.w = ck.w
        self.disabled = {}

    def asm(self, src):
        try:
            return self.w.asm(src)
        except (WorkerCrash, WorkerTimeout) as c:
            return c

    # ------------------------------------------------------------- direct
    def selftest(self):
        """every direct context with plain literals at its range ends: core contexts must hold (a literal is an
        expression), the others are dropped (and reported) if the encoding I wrote down is not what the assembler
        under test emits for a plain literal - that would be C01's business, not C04's"""
        for ci, (name, tpl, lo, hi, exp, core, lead, trail) in enumerate(DIRECT):
            for t in sorted(set([lo, hi, 0, 1, 5, 77] + [x for x in (2, 100, 255) if lo <= x <= hi])):
                if not (lo <= t <= hi):
                    continue
                r = self.asm(tpl.replace("{E}", plain(t)))
                self.s.evaluations += 1
                bad = isinstance(r, (WorkerCrash, WorkerTimeout)) or not r.ok or image_of(r) not in exp(t)
                if bad:
                    if core:
                        self.fail_direct(ci, t, None, plain(t), r)
                    else:
                        self.disabled[name] = "plain literal %d not encoded as written down" % t
                        self.s.count("ctx.direct.disabled." + name)
                    break

    def fail_direct(self, ci, t, e, text, r):
        name, tpl, lo, hi, exp, core, lead, trail = DIRECT[ci]
        if isinstance(r, WorkerCrash):
            kind, obs = "ctx_crash", r.report[-1200:]
        elif isinstance(r, WorkerTimeout):
            kind, obs = "ctx_hang", "timeout"
        elif not r.ok:
            kind, obs = "ctx_rejected", "; ".join(r.diag())[:300]
        else:
            kind, obs = "ctx_wrong_value", {("0x%x" % a): b for a, b in sorted(image_of(r).items())[:12]}
        raise Violation(dict(engine="c04", part="ctx_direct", kind=kind, context=name, target=t, text=text,
                             src=tpl.replace("{E}", text), cpu="msp430", width=0,
                             what="expression with reference value %d used in context '%s' did not have the effect of "
                                  "that value" % (t, name),
                             expected=[{("0x%x" % a): b for a, b in sorted(x.items())[:12]} for x in exp(t)],
                             observed=obs))

    def check_direct(self, case):
        ci, t, e, sp = case
        name, tpl, lo, hi, exp, core, lead, trail = DIRECT[ci]
        if name in self.disabled:
            return
        e2 = steer(e, t)
        self.s.evaluations += 1
        if e2 is None:
            self.s.count("ctx.novalue_skipped")
            return
        text = render(e2, sp)
        r = self.asm(tpl.replace("{E}", text))
        self.s.count("ctx.direct." + name)
        if len(em.prec_levels(e2)) >= 3:
            self.s.nt(("ctx", name, tuple(em.ops_of(e2))[:1]))
        if isinstance(r, (WorkerCrash, WorkerTimeout)) or not r.ok or image_of(r) not in exp(t):
            if not core and not isinstance(r, (WorkerCrash, WorkerTimeout)) and not r.ok:
                # CPU specific operand parsers may refuse operators the generic evaluator knows ('%' ...):
                # "accepted" is the statement's precondition
                self.s.count("ctx.direct.rejected." + name)
                return
            self.fail_direct(ci, t, e2, text, r)
        if self.s.classes.get("ctx.direct." + name, 0) % 400 == 1:
            self.s.sample(dict(part="context", context=name, text=text, value=t), limit=12)

    def replay_direct(self, payload):
        name = payload["context"]
        ci = [i for i, c in enumerate(DIRECT) if c[0] == name][0]
        exp = DIRECT[ci][4]
        r = self.asm(payload["src"])
        t = payload["target"]
        if isinstance(r, (WorkerCrash, WorkerTimeout)) or not r.ok or image_of(r) not in exp(t):
            self.fail_direct(ci, t, None, payload["text"], r)

    # ------------------------------------------------------------- differential
    def diff_templates(self, cpu, limit):
        import c06, progs
        out = []
        for t, span, is_reg, key in c06.templates_of(cpu):
            if is_reg:
                continue
            out.append((t, span, key))
        step = max(1, len(out) // limit)
        return out[::step][:limit]

    def check_diff(self, cpu, directive, tpl, span, key, exprs):
        """exprs: list of (e, sp_seed).  Finds literal values the template accepts, then steers each expression to
        one of them and compares with the plain-literal assembly."""
        head = ".%s\n.org 0x400\n" % directive
        pre, post = tpl[:span[0]], tpl[span[1]:]
        lead = True
        trail = post.lstrip().startswith("(") or True
        accepted = {}
        for t in (5, 12, 0, 1, 2, 100, 200, 0x40, 0x400, 0x408, 0x1234, 20000, -1, -5, -100, 0x12344):
            r = self.asm(head + pre + plain(t) + post + "\n")
            self.s.evaluations += 1
            if isinstance(r, (WorkerCrash, WorkerTimeout)):
                continue
            if r.ok and r.image:
                accepted[t] = image_of(r)
            if len(accepted) >= 5:
                break
        if not accepted:
            self.s.count("ctx.diff.template_vacuous")
            return
        self.s.count("ctx.diff.templates")
        ts = sorted(accepted)
        for i, (e, sp) in enumerate(exprs):
            t = ts[i % len(ts)]
            if e[0][1][0] == "par" or e[-1][1][0] == "par":
                continue
            e2 = steer(e, t)
            self.s.evaluations += 1
            if e2 is None:
                continue
            text = render(e2, sp)
            src = head + pre + text + post + "\n"
            r = self.asm(src)
            if isinstance(r, WorkerCrash):
                raise Violation(dict(engine="c04", part="ctx_diff", kind="ctx_crash", cpu=cpu, width=0, key=key, text=text,
                                     src=src, ref_src=head + pre + plain(t) + post + "\n", target=t,
                                     what="assembler crashed on an expression operand", expected="same bytes as the literal",
                                     observed=r.report[-1200:]))
            if isinstance(r, WorkerTimeout):
                self.s.inconclusive += 1
                continue
            if not r.ok:
                self.s.count("ctx.diff.rejected")
                self.s.count("ctx.diff.rejected." + cpu)
                continue
            self.s.count("ctx.diff.checked")
            self.s.count("ctx.diff.cpu." + cpu)
            self.s.nt(("diff", cpu, key))
            if image_of(r) != accepted[t]:
                raise Violation(dict(engine="c04", part="ctx_diff", kind="ctx_diff_value", cpu=cpu, width=0, key=key,
                                     text=text, src=src, ref_src=head + pre + plain(t) + post + "\n", target=t,
                                     what="statement assembled with an expression of value %d differs from the same "
                                          "statement with the literal %d" % (t, t),
                                     expected={("0x%x" % a): b for a, b in sorted(accepted[t].items())[:12]},
                                     observed={("0x%x" % a): b for a, b in sorted(image_of(r).items())[:12]}))

    def replay_diff(self, payload):
        a = self.asm(payload["src"])
        b = self.asm(payload["ref_src"])
        if isinstance(a, WorkerCrash):
            raise Violation(dict(payload, observed=a.report[-1200:]))
        if isinstance(a, WorkerTimeout) or isinstance(b, (WorkerCrash, WorkerTimeout)):
            return
        if a.ok and b.ok and image_of(a) != image_of(b):
            raise Violation(dict(payload))
