"""C11 Every symbol reference resolves to the definition the scoping rules select."""
import os
from hypothesis import strategies as st

from nvlib import (Worker, WorkerCrash, WorkerTimeout, Stats, Violation, hyp_run, shard_seed, load_known)
import formats

PROP = "C11"
RULE = ("Hypothesis programs mixing global labels, .scope/.ends and .func/.endf blocks, local labels that shadow "
        "globals, the same local name in several scopes, forward and backward '.dc32 name' references inside and "
        "outside scopes, .set chains, .export, names of 1..200 characters, padding/.org to spread addresses, and "
        "(class 'pool') > 32 KiB of symbol records. An independent resolver (definition in the enclosing scope block "
        "if any, else the global one, independent of order) predicts every .dc32 word and the symbol table; the ELF "
        ".symtab (decoded by an own reader) must list exactly the exported names with their addresses; programs "
        "with a duplicate definition in one scope must be rejected. non-trivial = a name defined both globally and "
        "locally that is referenced inside and outside the scope, with a forward and a backward reference; "
        "distinct key = (scope layout shape, shadow pattern)")
ASSUMPTIONS = [".set symbols are only referenced after their first assignment and never share a name with a label",
               "every referenced name has a definition visible from the reference (undefined references are a separate, "
               "fixed rejection case)", "references use .dc32 so the label value is independent of instruction sizing"]

FILE_TYPE_ELF = 2

NAMES = ["alpha", "beta", "loop", "x", "L1", "data_tbl", "ZZ", "q_9"]


@st.composite
def program(draw, big=False):
    """items: ('label', name) ('ref', name) ('pad', n) ('org', addr) ('scope',) ('ends',) ('func', name) ('endf',)
    ('set', name, v) ('export', name)"""
    items = []
    nblocks = draw(st.integers(0, 4))
    # layout: list of segments, each global or a scope block
    longname = "N" + "abcdefghij" * draw(st.sampled_from([1, 5, 19]))      # up to 191 characters
    names = NAMES + [longname]
    funcs = 0
    setn = 0
    globals_defined = set()
    segs = []
    for b in range(nblocks * 2 + 1):
        segs.append("global" if b % 2 == 0 else draw(st.sampled_from(["scope", "func"])))
    plan = []     # (kind, [entries]) with entries label/ref placeholders
    for kind in segs:
        n = draw(st.integers(0, 5))
        body = []
        local = set()
        for _ in range(n):
            c = draw(st.integers(0, 9))
            if c <= 3:
                nm = draw(st.sampled_from(names))
                if kind == "global":
                    if nm in globals_defined:
                        body.append(("ref", nm))
                        continue
                    globals_defined.add(nm)
                else:
                    if nm in local:
                        body.append(("ref", nm))
                        continue
                    local.add(nm)
                body.append(("label", nm))
            elif c <= 6:
                body.append(("ref", draw(st.sampled_from(names))))
            elif c == 7:
                body.append(("pad", draw(st.sampled_from([1, 2, 3, 10, 255, 1000]))))
            elif c == 8:
                setn += 1
                body.append(("set", "sv%d" % draw(st.integers(0, 2)), draw(st.sampled_from([0, 1, 77, 0x1234, 0xffff]))))
            else:
                body.append(("org", draw(st.sampled_from([0x100, 0x8000, 0x10000, 0x123456]))))
        plan.append((kind, body, local))
    # make every reference resolvable: a referenced name must be defined globally or in that block
    for kind, body, local in plan:
        for it in body:
            if it[0] == "ref" and it[1] not in local and it[1] not in globals_defined:
                globals_defined.add(it[1])
                plan[-1][1].append(("label", it[1]))       # define it globally in the last (global) segment
    # orgs must not make segments overlap backwards: keep addresses increasing by turning .org into padding when needed
    for kind, body, local in plan:
        if kind == "scope":
            items.append(("scope",))
        elif kind == "func":
            funcs += 1
            items.append(("func", "fn%d" % funcs))
        items.extend(body)
        if kind == "scope":
            items.append(("ends",))
        elif kind == "func":
            items.append(("endf",))
    # .set references: after first assignment only
    out = []
    seen_set = set()
    for it in items:
        out.append(it)
        if it[0] == "set":
            seen_set.add(it[1])
            if draw(st.booleans()):
                out.append(("ref", it[1]))
    # exports of some global labels
    exports = [g for g in sorted(globals_defined) if draw(st.integers(0, 2)) == 0]
    for g in exports:
        out.append(("export", g))
    if big:
        # > 32 KiB of symbol records, spread over every position outside scope blocks, with name lengths from 1 to
        # ~200 so that pool boundaries fall between arbitrary neighbours (a long name skips to the next pool while
        # later short names still fill the tail of the previous one)
        spots = [0]
        depth = 0
        for j, it in enumerate(out):
            if it[0] in ("scope", "func"):
                depth += 1
            elif it[0] in ("ends", "endf"):
                depth -= 1
            if depth == 0:
                spots.append(j + 1)
        total = draw(st.sampled_from([600, 900, 1400]))
        seedv = draw(st.integers(0, 1 << 30))
        import random as _r
        rnd = _r.Random(seedv)
        chunks = {}
        for i in range(total):
            sp = spots[rnd.randrange(len(spots))]
            ln = rnd.choice([1, 2, 5, 20, 40, 60, 90, 150, 200])
            nm = ("f%05d_" % i) + "y" * ln
            chunks.setdefault(sp, []).append(("label", nm))
            if i % 97 == 0:
                chunks[sp].append(("pad", 1))
        new_out = []
        for j in range(len(out) + 1):
            new_out.extend(chunks.get(j, []))
            if j < len(out):
                new_out.append(out[j])
        out = new_out
    # CPU: byte addressed (msp430), word addressed (avr8: labels are byte address / 2) or ELFCLASS64 (arm64)
    cpu = draw(st.sampled_from([("msp430", 1), ("msp430", 1), ("avr8", 2), ("arm64", 1)]))
    return [("cpu",) + cpu] + out


LOCAL_NAMES = ["a", "lp", "loc3", "m" * 30, "n" * 61, "p" * 100, "q" * 150, "r" * 201]


@st.composite
def program_scopes(draw):
    """many scope blocks whose local labels have names of very different lengths and are referenced inside
    their scope: the symbol pools (32 KiB each) end inside scope regions, long names skip to the next pool"""
    import random as _r
    rnd = _r.Random(draw(st.integers(0, 1 << 30)))
    nsc = draw(st.sampled_from([120, 250, 400]))
    items = []
    shadowed = rnd.sample(LOCAL_NAMES, 3)
    for g in shadowed:                       # global definitions of some of the local names
        items.append(("label", g))
        items.append(("pad", rnd.choice([1, 3])))
    for i in range(nsc):
        items.append(("scope",) if rnd.random() < 0.7 else ("func", "fn%d" % (i + 1)))
        k = rnd.randint(1, 4)
        names = rnd.sample(LOCAL_NAMES, k)
        body = []
        for nm in names:
            body.append(("label", nm))
            body.append(("ref", nm))
            if rnd.random() < 0.5:
                body.append(("pad", rnd.choice([1, 2, 7])))
        for nm in rnd.sample(LOCAL_NAMES, 2):   # extra references: local if defined here, else the global one
            if nm in names or nm in shadowed:
                body.append(("ref", nm))
        rnd.shuffle(body)
        items.extend(body)
        items.append(("ends",) if items[-len(body) - 1][0] == "scope" else ("endf",))
        if rnd.random() < 0.2:
            items.append(("ref", rnd.choice(shadowed)))
    return items


def resolve(items):
    """returns (image dict, symbols {(name, scope): addr}, words [(addr, name, value)], info)"""
    # pass A: addresses (bytes); a label's value is the address in the CPU's units
    bpa = 1
    for it in items:
        if it[0] == "cpu":
            bpa = it[2]
    addr = 0
    scope = 0
    cur = 0
    defs = {}          # (name, scopeid) -> addr
    order = []
    setvals = {}
    for it in items:
        k = it[0]
        if k == "label":
            defs[(it[1], cur)] = addr // bpa
        elif k == "func":
            defs[(it[1], 0)] = addr // bpa
            scope += 1
            cur = scope
        elif k == "scope":
            scope += 1
            cur = scope
        elif k in ("ends", "endf"):
            cur = 0
        elif k == "ref":
            addr += 4
        elif k == "pad":
            addr += it[1] * bpa
        elif k == "org":
            o = it[1] - it[1] % bpa
            addr = o if o > addr else addr     # rendered as .org only when it moves forward
    # pass B: values
    img = {}
    words = []
    addr = 0
    scope = 0
    cur = 0
    sets = {}
    info = dict(shadow_in=False, shadow_out=False, fwd=False, bwd=False)
    for it in items:
        k = it[0]
        if k == "func":
            scope += 1
            cur = scope
        elif k == "scope":
            scope += 1
            cur = scope
        elif k in ("ends", "endf"):
            cur = 0
        elif k == "set":
            sets[it[1]] = it[2]
        elif k == "ref":
            nm = it[1]
            if nm in sets and (nm, 0) not in defs:
                v = sets[nm]
            elif cur and (nm, cur) in defs:
                v = defs[(nm, cur)]
                if (nm, 0) in defs:
                    info["shadow_in"] = True
            else:
                v = defs[(nm, 0)]
                if any(n == nm and s != 0 for (n, s) in defs):
                    info["shadow_out"] = True
            if not (nm in sets and (nm, 0) not in defs):
                if v * bpa > addr:
                    info["fwd"] = True
                else:
                    info["bwd"] = True
            for i in range(4):
                img[addr + i] = (v >> (8 * i)) & 0xff
            words.append((addr, nm, v))
            addr += 4
        elif k == "pad":
            for i in range(it[1] * bpa):
                img[addr + i] = 0xee
            addr += it[1] * bpa
        elif k == "org":
            o = it[1] - it[1] % bpa
            addr = o if o > addr else addr
    syms = dict(defs)
    for n, v in sets.items():
        syms[(n, 0)] = v
    return img, syms, words, info


def render(items):
    cpu, bpa = "msp430", 1
    for it in items:
        if it[0] == "cpu":
            cpu, bpa = it[1], it[2]
    lines = [".%s" % cpu]
    addr = 0
    for it in items:
        k = it[0]
        if k == "label":
            lines.append("%s:" % it[1])
        elif k == "ref":
            lines.append("  .dc32 %s" % it[1])
            addr += 4
        elif k == "pad":
            lines.append("  .data_fill 0xee, %d" % (it[1] * bpa))
            addr += it[1] * bpa
        elif k == "org":
            o = it[1] - it[1] % bpa
            if o > addr:
                lines.append(".org 0x%x" % (o // bpa))
                addr = o
        elif k == "scope":
            lines.append(".scope")
        elif k == "ends":
            lines.append(".ends")
        elif k == "func":
            lines.append(".func %s" % it[1])
        elif k == "endf":
            lines.append(".endf")
        elif k == "set":
            lines.append(".set %s = %d" % (it[1], it[2]))
        elif k == "export":
            lines.append(".export %s" % it[1])
    return "\n".join(lines) + "\n"


def inject_duplicate(items, pick):
    """insert a second definition of an already defined name into the same scope; returns new items or None"""
    cur = 0
    scope = 0
    labs = []
    pos_by_scope = {}
    for j, it in enumerate(items):
        if it[0] in ("scope", "func"):
            scope += 1
            cur = scope
        elif it[0] in ("ends", "endf"):
            cur = 0
        if it[0] == "label":
            labs.append((j, it[1], cur))
        pos_by_scope.setdefault(cur, []).append(j)
    if not labs:
        return None
    j, name, sc = labs[pick % len(labs)]
    later = [p for p in pos_by_scope.get(sc, []) if p > j]
    if not later:
        return None
    at = later[(pick // 7) % len(later)] + 1
    # position `at` must still be inside scope sc: positions recorded are items processed while cur == sc,
    # inserting directly after such an item keeps the scope unless that item was the closing directive
    if items[at - 1][0] in ("scope", "func") and sc == 0:
        return None
    return items[:at] + [("label", name)] + items[at:]


def shape(items):
    s = []
    for it in items:
        if it[0] in ("scope", "func", "ends", "endf"):
            s.append(it[0][0])
        elif it[0] in ("label", "ref") and not it[1].startswith("f0"):
            s.append(it[0][0] + it[1][:2])
    return "".join(s)


DUPLICATES = [
    ("global_twice", ".msp430\nfoo:\n.db 1\nfoo:\n.db 2\n", False),
    ("local_twice", ".msp430\n.scope\nfoo:\n.db 1\nfoo:\n.db 2\n.ends\n", False),
    ("global_twice_after_scope", ".msp430\nfoo:\n.db 1\n.scope\nbar:\n.db 3\n.ends\nfoo:\n.db 2\n", False),
    ("global_twice_after_func", ".msp430\n.func f1\nbar:\n.db 3\n.endf\nfoo:\n.db 1\nfoo:\n.db 2\n", False),
    ("func_name_twice", ".msp430\n.func f1\n.db 1\n.endf\n.func f1\n.db 2\n.endf\n", False),
    ("label_vs_func", ".msp430\nf1:\n.db 1\n.func f1\n.db 2\n.endf\n", False),
    ("undefined_ref", ".msp430\n.dc32 nosuchlabel\n", False),
    ("local_not_visible_outside", ".msp430\n.scope\nloc:\n.db 1\n.ends\n.dc32 loc\n", False),
    ("local_not_visible_in_other_scope", ".msp430\n.scope\nloc:\n.db 1\n.ends\n.scope\n.dc32 loc\n.ends\n", False),
    ("nested_scope", ".msp430\n.scope\n.scope\n.db 1\n.ends\n.ends\n", False),
    ("export_local", ".msp430\n.scope\nloc:\n.db 1\n.export loc\n.ends\n", False),
    ("export_undefined", ".msp430\n.db 1\n.export nothing_here\n", False),
    ("shadow_ok", ".msp430\nfoo:\n.db 1\n.scope\nfoo:\n.db 2\n.dc32 foo\n.ends\n.dc32 foo\n", True),
    ("same_local_two_scopes_ok", ".msp430\n.scope\nl:\n.dc32 l\n.ends\n.scope\n.db 1\nl:\n.dc32 l\n.ends\n", True),
    ("label_too_long", ".msp430\n" + "L" * 300 + ":\n.db 1\n", False),
]


class Checker:
    def __init__(self, stats, worker):
        self.s = stats
        self.w = worker
        self.known = load_known(PROP)

    def asm(self, src, elf=False):
        try:
            if elf:
                return self.w.asm(src, type=str(FILE_TYPE_ELF), outfile="out.elf")
            return self.w.asm(src)
        except (WorkerCrash, WorkerTimeout) as c:
            return c

    def check(self, items, want_elf):
        src = render(items)
        img, syms, words, info = resolve(items)
        exports = sorted(set(it[1] for it in items if it[0] == "export"))
        r = self.asm(src, elf=want_elf)
        base = dict(src=src if len(src) < 6000 else src[:3000] + "\n...\n" + src[-2500:], full_src=src,
                    mode="program", engine="c11", want_elf=want_elf)
        if isinstance(r, WorkerCrash):
            raise Violation(dict(base, what="assembler crashed", kind="crash", observed=r.report[-1200:]))
        if isinstance(r, WorkerTimeout):
            raise Violation(dict(base, what="assembler hung", kind="hang", observed="timeout"))
        if not r.ok:
            raise Violation(dict(base, what="valid program rejected", kind="rejected",
                                 observed="; ".join(r.diag())[:300]))
        for a, nm, v in words:
            got = sum(r.image.get(a + i, 0) << (8 * i) for i in range(4))
            if got != v:
                raise Violation(dict(base, what="reference resolves to the wrong definition", kind="wrong_ref",
                                     expected=dict(addr=a, name=nm, value=v), observed=dict(value=got)))
        if r.image != img:
            raise Violation(dict(base, what="image differs", kind="wrong_image", observed="image keys/pad differ"))
        got_syms = r.symdict(2)
        if got_syms != syms:
            miss = sorted(set(syms.items()) ^ set(got_syms.items()))[:6]
            raise Violation(dict(base, what="symbol table differs from the definitions", kind="wrong_symbol",
                                 observed=repr(miss)))
        if want_elf:
            try:
                data = open(os.path.join(self.w.dir, "out.elf"), "rb").read()
                elf = formats.read_elf(data)
            except (OSError, formats.FormatError) as e:
                raise Violation(dict(base, what="ELF output unreadable", kind="bad_elf", observed=str(e)))
            named = [(s["name"], s["value"]) for s in elf["symbols"] if (s["info"] >> 4) == 1 and s["name"]]
            want = sorted((n, syms[(n, 0)]) for n in exports)
            if sorted(named) != want:
                raise Violation(dict(base, what="ELF symbol table does not list exactly the exported symbols with "
                                                "their addresses", kind="wrong_elf_symbols",
                                     expected=want, observed=sorted(named)[:20]))
        return info

    def check_fixed(self, tag, src, should_accept):
        r = self.asm(src)
        base = dict(src=src, mode="fixed", tag=tag, should_accept=should_accept, engine="c11")
        if isinstance(r, WorkerCrash):
            raise Violation(dict(base, what="assembler crashed", kind="crash", observed=r.report[-1200:]))
        if isinstance(r, WorkerTimeout):
            raise Violation(dict(base, what="assembler hung", kind="hang", observed="timeout"))
        if should_accept and not r.ok:
            raise Violation(dict(base, what="legal scoping program (%s) rejected" % tag, kind="rejected",
                                 observed="; ".join(r.diag())[:300]))
        if not should_accept:
            if r.ok:
                raise Violation(dict(base, what="program with %s accepted" % tag, kind="accepted",
                                     observed=dict(image=[r.image[a] for a in sorted(r.image)][:16])))
            if not r.diag():
                raise Violation(dict(base, what="rejected without a diagnostic", kind="no_diag", observed=r.out[-200:]))


def run(tier, seed, shard, nshards):
    s = Stats()
    w = Worker("c11")
    ck = Checker(s, w)

    def mk_test(big):
        def test(items):
            s.evaluations += 1
            want_elf = any(it[0] == "export" for it in items) or big
            info = ck.check(items, want_elf)
            nsc = sum(1 for it in items if it[0] in ("scope", "func"))
            s.count("scopes=%d" % min(nsc, 4))
            if want_elf:
                s.count("class.elf_checked")
            if big:
                s.count("class.pool>32KiB")
            if info["shadow_in"] and info["shadow_out"] and info["fwd"] and info["bwd"]:
                s.count("class.nontrivial")
                s.nt(shape(items))
                if len(s.samples) < 4 and not big:
                    s.sample(dict(src=render(items)))
            elif big:
                s.nt("big:" + shape(items))
        return test

    try:
        try:
            for i, (tag, src, ok) in enumerate(DUPLICATES):
                if i % nshards != shard:
                    continue
                s.evaluations += 1
                s.count("fixed." + tag)
                s.nt(("fixed", tag))
                ck.check_fixed(tag, src, ok)
        except Violation as v:
            s.violations.append(v.payload)
        n = 1500 if tier == "quick" else 10000
        nb = 60 if tier == "quick" else 400
        hyp_run(mk_test(False), program(False), n, shard_seed(seed, shard, "c11"), s)
        hyp_run(mk_test(True), program(True), nb, shard_seed(seed, shard, "c11b"), s)
        hyp_run(mk_test(True), program_scopes(), nb, shard_seed(seed, shard, "c11s"), s)

        def test_dup(case):
            items, pick = case
            dup = inject_duplicate(items, pick)
            if dup is None:
                return
            s.evaluations += 1
            s.count("class.generated_duplicate")
            s.nt("dup:" + shape(dup))
            ck.check_fixed("generated duplicate definition", render(dup), False)

        hyp_run(test_dup, st.tuples(program(False), st.integers(0, 1000)), n // 2, shard_seed(seed, shard, "c11d"), s)
    finally:
        w.close()
    return s


def selfcheck(m, tier):
    bad = []
    if m["classes"].get("class.nontrivial", 0) < 20:
        bad.append("shadow+fwd+bwd class nearly empty (%d)" % m["classes"].get("class.nontrivial", 0))
    if m["classes"].get("class.pool>32KiB", 0) < 5:
        bad.append("no programs beyond one symbol pool")
    return bad


def replay(payload):
    s = Stats()
    w = Worker("c11r")
    ck = Checker(s, w)
    try:
        if payload.get("mode") == "fixed":
            try:
                ck.check_fixed(payload["tag"], payload["src"], payload["should_accept"])
            except Violation as v:
                return True, v.payload
            return False, "passes"
        # re-derive the abstract items from the source text (one statement per line, generated syntax only)
        items = []
        first = payload["full_src"].split("\n")[0].strip().lstrip(".")
        bpa = {"avr8": 2}.get(first, 1)
        items.append(("cpu", first, bpa))
        for line in payload["full_src"].split("\n")[1:]:
            t = line.strip()
            if not t:
                continue
            if t.endswith(":"):
                items.append(("label", t[:-1]))
            elif t.startswith(".dc32 "):
                items.append(("ref", t[6:]))
            elif t.startswith(".data_fill"):
                items.append(("pad", int(t.split(",")[1]) // bpa))
            elif t.startswith(".org "):
                items.append(("org", int(t[5:], 16) * bpa))
            elif t == ".scope":
                items.append(("scope",))
            elif t == ".ends":
                items.append(("ends",))
            elif t.startswith(".func "):
                items.append(("func", t[6:]))
            elif t == ".endf":
                items.append(("endf",))
            elif t.startswith(".set "):
                n, v = t[5:].split("=")
                items.append(("set", n.strip(), int(v)))
            elif t.startswith(".export "):
                items.append(("export", t[8:]))
        try:
            ck.check(items, payload.get("want_elf", False))
        except Violation as v:
            return True, v.payload
        return False, "passes"
    finally:
        w.close()
