"""C16, structured part: generated naken_asm inputs whose *shape* is chosen to stress one mechanism at a time, run through
the sanitized CLI (so main()'s own loops - listing dump, writers - are included, which the in-process fuzz target does
not execute).

 amplify   one token repeated N times (N up to 70,000) in every syntactic position: operand, data list, condition,
           macro argument / body / name, label, string, directly after a mnemonic, .define chains that expand to nothing
 extreme   a byte at the very top / middle of the 32-bit space with -l and every output type (single segment: the work
           requested is constant)
 nest      k nested conditionals around a (self-)include, include chains, macro chains: the two nesting limits combined
 operand   every instruction template of the corpus with boundary operand values (in-process, 15 s limit per statement)

Oracle: the process ends within the limit (40 s, re-checked with 150 s), exit status 0 or 1, no sanitizer report; a
status of 1 comes with a diagnostic."""
import os, re, shutil
from hypothesis import strategies as st
from nvlib import (Stats, Violation, run_cli, new_scratch, hyp_run, shard_seed, load_known, Worker, WorkerCrash,
                   WorkerTimeout, is_diagnostic)
import progs

TOKENS = ["-", "~", "+", "*", "/", "%", "(", ")", "[", "]", "{", "}", "<", ">", "=", "!", "&", "|", "^", ",", ".", ":", ";", "#",
          "$", "@", "'", "\"", "\\", "?", "_", "0", "1", "9", "a", "Z", "0x", "1+", "-(", "(1", "1)", "a,", "1,", " ", "\t",
          "EMPT ", "EMPT", "ONE ", "ONE+", "\\n", "'a'", "\"s\"", "1 ", "a ", "- ", "~ ", "( ", "<< ", "&& ", "|| ", "== ", "! "]
COUNTS = [1, 2, 3, 17, 130, 520, 1100, 5000, 70000]
CONTEXTS = [".dc32 {X}1", ".dc32 {X}", ".db {X}", ".db 1{X}", ".if {X}1\n.db 1\n.endif", ".if 1 {X}\n.db 1\n.endif",
            ".ifdef {X}\n.endif", "{MN} {X}", "{MN}{X}", "{MN} {X}1", "{INS}{X}", "{INS} {X}", ".macro MX({X})\n.endm",
            ".macro MY(a)\n.db a\n.endm\nMY({X})", ".macro MZ\n{X}\n.endm\nMZ", ".define DX {X}\n.db DX 1", "lb{X}:", "{X}:",
            ".ascii \"{X}\"", ".db '{X}'", ".org {X}1", ".include \"{X}\"", ".set sx = {X}1", "sx equ {X}", ".repeat 2\n.db {X}1\n.endr",
            ".export {X}", ".scope\n{X}\n.ends", "/* {X}", "; {X}", ".{X}", "#{X}", ".binfile \"{X}\"",
            ".dq {X}1", ".entry_point {X}1"]
TYPES = ["hex", "bin", "srec", "elf", "wdc", "uf2", "amiga", "macho"]
TOPS = [0xffffffff, 0xfffffffe, 0xfffffff0, 0xffff0000, 0x7fffffff, 0x80000000, 0xfffe, 0xffff, 0x10000, 0xffffff, 0x1000000]


@st.composite
def amplify(draw, pools):
    cpu = draw(st.sampled_from(sorted(pools)))
    ins = draw(st.sampled_from(pools[cpu])) if pools[cpu] else "nop"
    ctx = draw(st.sampled_from(CONTEXTS))
    tok = draw(st.sampled_from(TOKENS))
    n = draw(st.sampled_from(COUNTS))
    if len(tok) * n > 300000:
        n = 300000 // len(tok)
    x = tok.replace("\\n", "\n") * n
    body = ctx.replace("{X}", x).replace("{MN}", ins.split()[0]).replace("{INS}", ins)
    src = ".%s\n.define EMPT\n.define ONE 1\n%s\n.db 0x5a\n" % (progs.CPU_FILES.get(cpu, cpu), body)
    opts = ["-l"] if draw(st.booleans()) else []
    return dict(kind="amplify", cpu=cpu, src=src, files=[], args=opts + ["-type", draw(st.sampled_from(["hex", "bin", "elf"]))],
                key=(ctx, tok, n), big=(n >= 1100))


@st.composite
def extreme(draw):
    cpu = draw(st.sampled_from(["msp430", "68000", "mips", "avr8", "z80", "propeller", "ebpf", "arm", "65816", "riscv"]))
    a = draw(st.sampled_from(TOPS)) - draw(st.sampled_from([0, 0, 1, 2, 3, 4, 15, 16]))
    a &= 0xffffffff
    n = draw(st.sampled_from([1, 2, 3, 4, 5, 8, 17, 33]))
    stmt = draw(st.sampled_from([".db", ".dc16", ".dc32", ".dc64", ".ascii"]))
    if stmt == ".ascii":
        data = ".ascii \"%s\"" % ("x" * n)
    else:
        data = "%s %s" % (stmt, ", ".join(str(i + 1) for i in range(n)))
    src = ".%s\n.org 0x%x\nlab_top:\n%s\n" % (cpu, a, data)
    if draw(st.booleans()):
        src += ".entry_point lab_top\n"
    typ = draw(st.sampled_from(TYPES))
    opts = draw(st.sampled_from([[], ["-l"], ["-l"], ["-q"], ["-dump_symbols"]]))
    return dict(kind="extreme", cpu=cpu, src=src, files=[], args=opts + ["-type", typ], key=(cpu, typ, hex(a), stmt), big=False)


@st.composite
def nest(draw):
    k = draw(st.sampled_from([0, 1, 2, 10, 30, 46, 47, 48, 49, 60, 100, 200]))
    mode = draw(st.sampled_from(["self_include", "chain_include", "mutual_include", "macro_chain", "if_only", "scope_func"]))
    opens = "".join(".if 1\n" for _ in range(k))
    closes = "".join(".endif\n" for _ in range(k))
    files = []
    if mode == "self_include":
        src = ".msp430\n%s.include \"main.asm\"\n%s.db 1\n" % (opens, closes)
    elif mode == "mutual_include":
        files = [("other.inc", "%s.include \"main.asm\"\n%s" % (opens, closes))]
        src = ".msp430\n.include \"other.inc\"\n.db 1\n"
    elif mode == "chain_include":
        d = draw(st.sampled_from([2, 10, 63, 64, 65, 130]))
        for i in range(d):
            nxt = ".include \"c%d.inc\"\n" % (i + 1) if i + 1 < d else ".db 7\n"
            files.append(("c%d.inc" % i, "%s%s%s" % (opens if i % 3 == 0 else "", nxt, closes if i % 3 == 0 else "")))
        src = ".msp430\n.include \"c0.inc\"\n.db 1\n"
    elif mode == "macro_chain":
        d = draw(st.sampled_from([2, 20, 127, 128, 129, 300]))
        lines = [".msp430", ".macro K0", "%s.db 1\n%s" % (opens, closes), ".endm"]
        for i in range(1, d):
            lines += [".macro K%d" % i, "K%d" % (i - 1), ".endm"]
        lines.append("K%d" % (d - 1))
        src = "\n".join(lines) + "\n"
    elif mode == "scope_func":
        src = ".msp430\n" + "".join(".scope\n.ends\n.func f%d\n.endf\n" % i for i in range(k * 20)) + ".db 1\n"
    else:
        src = ".msp430\n%s.db 1\n%s" % (opens, closes)
    return dict(kind="nest", cpu="msp430", src=src, files=files, args=draw(st.sampled_from([[], ["-l"]])) + ["-type", "hex"],
                key=(mode, k), big=False)


def run_case(case, timeout=40):
    d = new_scratch("c16s")
    try:
        with open(os.path.join(d, "main.asm"), "w", encoding="latin-1") as f:
            f.write(case["src"])
        for name, text in case["files"]:
            with open(os.path.join(d, name), "w", encoding="latin-1") as f:
                f.write(text)
        rc, out, err, to = run_cli("naken_asm_san", case["args"] + ["-o", "out.bin", "main.asm"], d, timeout=timeout)
        size = 0
        try:
            size = os.path.getsize(os.path.join(d, "out.bin"))
        except OSError:
            pass
        return rc, out, err, to, size
    finally:
        shutil.rmtree(d, ignore_errors=True)


def judge(case, rc, out, err, to):
    if to:
        return ("hang", "naken_asm did not end within the limit on an input of %d bytes" % len(case["src"]), out[-300:])
    if "ERROR: AddressSanitizer" in err or "runtime error:" in err or rc == 86:
        m = re.search(r"(ERROR: AddressSanitizer: \S+|runtime error: [^\n]*)", err)
        site = re.search(r"#\d+ 0x[0-9a-f]+ in (\S+) [^\n]*?/(\w+/[\w.]+):\d+", err)
        return ("sanitizer", "sanitizer report", (m.group(0) if m else "") + " in " + (site.group(1) + " " + site.group(2) if site else "?")
                + " | " + err[-500:])
    if rc is None or rc < 0:
        return ("signal", "naken_asm died from a signal (%s)" % rc, err[-300:])
    if rc not in (0, 1):
        return ("status", "exit status %s" % rc, out[-300:])
    if rc == 1 and not any(is_diagnostic(l) for l in out.split("\n")):
        return ("no_diagnostic", "exit status 1 without a diagnostic", out[-300:])
    return None


def operand_part(s, w, tier, shard, nshards):
    """boundary operand values in every corpus template: each statement must be answered within 15 s"""
    import c06, c02
    vals = [-1, -2, -128, -129, -32769, -0x80000000, 0x7fffffff, 0xffffffff, 0x80000000, 0xffff, 0x10000, 255, 256]
    info = {c["name"]: c for c in w.cpus()}
    rev = set(progs.CPU_FILES.values())
    allc = sorted(progs.CPU_FILES) + sorted(n for n in info if n not in rev and n not in progs.CPU_FILES)
    cpus = [c for i, c in enumerate(allc) if i % nshards == shard]
    for cpu in cpus:
        d = progs.CPU_FILES.get(cpu, cpu)
        ci = info.get(d, dict(unit=1, align=1))
        corp = [t for t in c06.templates_of(cpu) if not t[2]]
        rend = [t for t in c06.templates_of(cpu, c06.rendering_texts(w, cpu, ci["unit"], ci["align"]))[len(c06.templates_of(cpu)):]
                if not t[2]]
        s.count("operand.templates_from_renderings", len(rend))
        if tier == "quick":
            corp = corp[::max(1, len(corp) // 15)][:15]
            rend = rend[::max(1, len(rend) // 15)][:15]
        tl = corp + rend
        for t, span, is_reg, key in tl:
            for v in (vals if tier != "quick" else vals[:7]):
                src = ".%s\n.org 0x400\n%s%s%s\n" % (d, t[:span[0]], ("-0x%x" % -v) if v < 0 else "0x%x" % v, t[span[1]:])
                s.evaluations += 1
                s.count("operand.statements")
                try:
                    w.asm(src)
                except WorkerTimeout:
                    rc, out, err, to, size = run_case(dict(src=src, files=[], args=["-type", "hex"]), timeout=90)
                    if to:
                        raise Violation(dict(engine="c16s", kind="struct_hang", what="naken_asm does not end on a one-instruction "
                                             "program (boundary operand value)", cpu=cpu, src=src, files=[], args=["-type", "hex"],
                                             observed=out[-200:]))
                except WorkerCrash:
                    pass            # crashes of single statements are C06's / the fuzz target's finding; not re-reported here


def part(s, tier, seed, shard, nshards):
    known = [f for f in load_known("C16") if f.get("match", {}).get("pred") == "struct_site"]
    w = Worker("c16s", timeout=15)
    try:
        pools = progs.make_pools(w, sorted(progs.CPU_FILES), want=6)

        def test(case):
            s.evaluations += 1
            import time as _t
            t0 = _t.time()
            rc, out, err, to, size = run_case(case)
            if _t.time() - t0 > 8:
                s.notes.append("slow (%.0f s, %d bytes): %s %s" % (_t.time() - t0, len(case["src"]), case["kind"], str(case["key"])[:120]))
            s.count("struct." + case["kind"])
            if case.get("big"):
                s.count("struct.amplify.n>=1100")
            if rc == 1:
                s.count("struct.rejected")
            s.nt(("struct", case["kind"]) + tuple(case["key"]))
            if len(s.samples) < 6 and len(case["src"]) < 300:
                s.sample(dict(part="structured", kind=case["kind"], args=case["args"], src=case["src"]))
            v = judge(case, rc, out, err, to)
            if v is None:
                return
            kind, what, obs = v
            if kind == "hang":
                rc2, out2, err2, to2, size2 = run_case(case, timeout=150)
                v2 = judge(case, rc2, out2, err2, to2)
                if v2 is None:
                    s.inconclusive += 1
                    s.count("struct.slow_but_ends")
                    return
                kind, what, obs = v2
            for f in known:
                m = f["match"]
                if m.get("kind") == kind and m.get("site", "\0") in (obs or ""):
                    s.known_hits.setdefault(f["id"], dict(src=case["src"][:300]))
                    s.excluded_known += 1
                    return
            src = case["src"]
            raise Violation(dict(engine="c16s", kind="struct_" + kind, what=what, observed=obs, cpu=case["cpu"], args=case["args"],
                                 files=case["files"], src=src if len(src) < 4000 else None, src_head=src[:300], src_len=len(src),
                                 gen=dict(kind=case["kind"], key=list(case["key"])), full_src=src))

        n = 60 if tier == "quick" else 1200
        hyp_run(test, st.one_of(amplify(pools), amplify(pools), extreme(), nest()), n, shard_seed(seed, shard, "c16s"), s)
        try:
            operand_part(s, w, tier, shard, nshards)
        except Violation as v:
            s.violations.append(v.payload)
    finally:
        w.close()


def replay(payload):
    case = dict(src=payload.get("full_src") or payload.get("src"), files=[tuple(f) for f in payload.get("files", [])],
                args=payload["args"], cpu=payload.get("cpu"))
    rc, out, err, to, size = run_case(case, timeout=150)
    v = judge(case, rc, out, err, to)
    return (v is not None), (v or "passes")
