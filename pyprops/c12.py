"""C12 Failure is atomic: diagnostics, exit status and output file always agree."""
import os, shutil
from hypothesis import strategies as st

from nvlib import (Worker, WorkerCrash, WorkerTimeout, Stats, Violation, hyp_run, shard_seed, load_known, run_cli,
                   new_scratch, is_diagnostic)
import progs, formats

PROP = "C12"
RULE = ("Hypothesis structured programs (instructions of 20 CPUs, data, labels, macros, conditionals, repeats, "
        "includes; all 8 output types) with and without ONE corruption (unknown mnemonic, undefined symbol, "
        "out-of-range value, missing/extra operand, malformed directive or condition, unterminated quote/comment/"
        "conditional/repeat/macro, stray .endm/.endr/.else/.endif) at a generated position (top level, first/last "
        "line, inside taken/untaken conditional, invoked/uninvoked macro, include file, repeat body). The real CLI "
        "(sanitized) runs with a stale file already at the -o path. Oracle = consistency of the three observables: "
        "exit in {0,1}; exit 0 <=> no error diagnostic and a complete output file equal to the in-process image; "
        "exit != 0 => nothing at the -o path; corruptions that are invalid by construction and sit on an assembled "
        "line must be rejected. non-trivial = corrupted program whose corruption sits inside a conditional, macro, "
        "include or repeat, or on the last line; distinct key = (corruption kind, context, cpu)")
ASSUMPTIONS = ["a diagnostic is a stdout line containing one of the error phrases the print_error* helpers and ad-hoc "
               "printfs use ('Error', 'Cannot open', 'Unknown', 'Unexpected', ...); lines with 'Warning' are not",
               "corruptions inside an untaken conditional or a macro that is never invoked are not required to be rejected"]

TYPES = ["hex", "bin", "srec", "elf", "wdc", "uf2", "amiga", "macho"]
EXT = dict(hex="hex", bin="bin", srec="srec", elf="elf", wdc="wdc", uf2="uf2", amiga="amiga", macho="macho")

# (kind, text, must_reject_when_assembled)
CORRUPTIONS = [
    ("unknown_mnemonic", "  zzqx9 r1, r2", True),
    ("undefined_symbol", "  .dc32 undefined_symbol_zz", True),
    ("db_out_of_range", "  .db 999", True),
    ("dw_out_of_range", "  .dw 70000", True),
    ("org_without_operand", "  .org", True),
    ("unknown_directive", "  .nosuchdirective 5", True),
    ("dangling_expression", "  .dc32 1 +", True),
    ("division_by_zero", "  .dc32 5 / 0", True),
    ("unterminated_quote", "  .db \"abc", True),
    ("unterminated_comment", "  /* never closed", True),
    ("stray_endif", ".endif", True),
    ("stray_else", ".else", True),
    ("stray_endr", ".endr", True),
    ("stray_endm", ".endm", False),
    ("unterminated_if", ".if 1", True),
    ("unterminated_repeat", ".repeat 2", True),
    ("unterminated_macro", ".macro UNTERMINATED_M(a)", False),
    ("bad_condition", ".if 1 &&", True),
    ("macro_wrong_argcount", "  BADMAC(1, 2, 3)", True),
    ("duplicate_label", "lbl_end:", True),
    ("include_missing_file", ".include \"no_such_file_zz.inc\"", True),
    ("binfile_missing_file", ".binfile \"no_such_file_zz.bin\"", True),
    ("align_too_large", "  .align 65536", True),
    ("repeat_bad_count", ".repeat x", True),
    ("set_without_value", ".set foo", True),
    ("label_only_colon", ":", False),
    ("extra_operand_data", "  .db 1 2", True),
    ("duplicate_define", ".define DUPD 1\n.define DUPD 2", True),
    ("duplicate_equ", "DUPE equ 1\nDUPE equ 2", True),
    ("duplicate_macro", ".macro DUPM\n  .db 1\n.endm\n.macro DUPM\n  .db 2\n.endm", True),
    ("define_vs_label", "dupl_x:\n.define dupl_x 5", True),
    ("scope_nested", ".scope\n.scope\n.ends\n.ends", True),
    ("export_undefined", ".export never_defined_zz", True),
    ("func_duplicate", ".func fdup\n.endf\n.func fdup\n.endf", True),
    ("instr_truncated", "@TRUNC", False),
    ("instr_extra_operands", "@EXTRA", False),
    ("instr_garbage_operand", "@GARBAGE", False),
]


STRUCTURAL = ("stray_endif", "stray_else", "stray_endr", "stray_endm", "unterminated_if", "unterminated_repeat",
              "unterminated_macro", "unterminated_comment", "unterminated_quote")


@st.composite
def case(draw, pools):
    p = draw(progs.structured_program(pools, cpus=sorted(pools)))
    typ = draw(st.sampled_from(TYPES))
    listing = draw(st.booleans())
    corrupt = draw(st.integers(0, 3)) != 0
    cor = None
    if corrupt:
        kind, text, must = draw(st.sampled_from(CORRUPTIONS))
        if text.startswith("@"):
            ins = draw(st.sampled_from(pools[p.cpu]))
            if text == "@TRUNC":
                text = "  " + ins.split()[0] if " " in ins else "  " + ins + " 1"
            elif text == "@EXTRA":
                text = "  " + ins + ", 1, 2, 3"
            else:
                text = "  " + ins.split()[0] + " %%%, ]["
        # position: index in main file lines, or inside an include file
        where = draw(st.sampled_from(["any", "any", "first", "last", "include"]))
        if where == "include" and p.files:
            fi = draw(st.integers(0, len(p.files) - 1))
            cor = (kind, text, must, ("file", fi, draw(st.integers(0, 3))))
        elif where == "first":
            cor = (kind, text, must, ("line", 1))
        elif where == "last":
            cor = (kind, text, must, ("line", len(p.lines)))
        else:
            cor = (kind, text, must, ("line", draw(st.integers(1, len(p.lines)))))
    return (p, typ, listing, cor)


def apply_corruption(p, cor):
    """returns (main source, files, context tag of the corrupted position)"""
    lines = list(p.lines)
    files = list(p.files)
    kind, text, must, pos = cor
    extra = []
    if kind == "macro_wrong_argcount":
        extra = [".macro BADMAC(a)", "  .db a", ".endm"]
    if pos[0] == "file":
        name, body = files[pos[1]]
        bl = body.split("\n")
        at = min(pos[2], len(bl) - 1)
        bl.insert(at, text)
        files[pos[1]] = (name, "\n".join(bl))
        ctx = {"if_taken": "include_in_if", "if_untaken": "include_untaken"}.get(getattr(p, "file_ctx", {}).get(pos[1]), "include")
    else:
        at = pos[1]
        # context of the insertion point = context of the line before it when that line is inside a block
        before = p.ctx[at - 1] if at - 1 < len(p.ctx) else "top"
        after = p.ctx[at] if at < len(p.ctx) else "top"
        ctx = "top"
        for c in (before, after):
            pass
        if before.startswith("macro:") and (after.startswith("macro:") or after == "macrodef"):
            ctx = before
        elif before in ("if_taken", "if_untaken") and after in ("if_taken", "if_untaken", "ifdir"):
            ctx = before
        elif before == "ifdir" and after in ("if_taken", "if_untaken"):
            ctx = after
        elif before == "macrodef" and after.startswith("macro:"):
            ctx = after
        elif before in ("repeat", "repeatdir") and after in ("repeat", "repeatdir") and not (
                before == "repeatdir" and after != "repeat"):
            ctx = "repeat"
        lines.insert(at, text)
    if extra:
        lines[1:1] = extra
    return "\n".join(lines) + "\n", files, ctx


def assembled(ctx, p):
    """is a statement at this context actually assembled?"""
    if ctx in ("top", "include", "include_in_if", "repeat", "if_taken"):
        return True
    if ctx.startswith("macro:"):
        return ctx[6:] in p.macro_invoked
    return False


class Checker:
    def __init__(self, stats, worker):
        self.s = stats
        self.w = worker
        self.known = load_known(PROP)
        self.dir = new_scratch("c12cli")

    def close(self):
        shutil.rmtree(self.dir, ignore_errors=True)

    def known_match(self, kind, ckind, ctx):
        for f in self.known:
            m = f.get("match", {})
            if kind in m.get("kinds", []) and ckind in m.get("corruptions", []):
                return f["id"]
        return None

    def run(self, src, files, typ, listing, cpu, cor_kind, ctx, must_reject):
        d = self.dir
        for fn in os.listdir(d):
            os.unlink(os.path.join(d, fn))
        with open(os.path.join(d, "prog.asm"), "w", encoding="latin-1") as f:
            f.write(src)
        for n, t in files:
            with open(os.path.join(d, n), "w", encoding="latin-1") as f:
                f.write(t)
        out_name = "out." + EXT[typ]
        with open(os.path.join(d, out_name), "wb") as f:
            f.write(b"STALE OUTPUT FROM AN EARLIER RUN\n")
        args = ["-type", typ, "-o", out_name] + (["-l"] if listing else []) + ["prog.asm"]
        rc, out, err, to = run_cli("naken_asm_san", args, d, timeout=60)
        base = dict(src=src, files=files, type=typ, listing=listing, cpu=cpu, corruption=cor_kind, context=ctx,
                    must_reject=must_reject, engine="c12")
        if to:
            self.s.inconclusive += 1
            return "timeout"
        path = os.path.join(d, out_name)
        exists = os.path.exists(path)
        content = open(path, "rb").read() if exists else None
        stale = content is not None and content.startswith(b"STALE OUTPUT")
        diags = [l for l in out.split("\n") if is_diagnostic(l)]

        def fail(what, kind, observed):
            fid = self.known_match(kind, cor_kind, ctx)
            if fid:
                self.s.known_hits.setdefault(fid, dict(src=src[-300:], observed=observed))
                self.s.excluded_known += 1
                return "known"
            raise Violation(dict(base, what=what, kind=kind, observed=observed))

        if rc not in (0, 1):
            return fail("naken_asm ended with status %s (signal or sanitizer report)" % rc, "bad_status",
                        dict(rc=rc, err=err[-1500:], out=out[-300:]))
        if rc == 0:
            if diags:
                return fail("exit status 0 although an error was reported", "status0_with_diagnostic",
                            dict(diagnostics=diags[:4]))
            if not exists or stale:
                return fail("exit status 0 but no (new) output file", "status0_without_output",
                            dict(exists=exists, stale=stale))
            if must_reject:
                return fail("a statement that is invalid by construction was accepted", "invalid_accepted",
                            dict(out=out[-300:]))
            if typ == "hex":
                # complete and equal to the in-process image
                for n, t in files:
                    self.w.write_file(n, t)
                try:
                    r = self.w.asm(src, flags="F")
                except (WorkerCrash, WorkerTimeout):
                    r = None
                try:
                    img, info = formats.read_hex(content)
                except formats.FormatError as e:
                    return fail("exit status 0 but the output file is incomplete/malformed", "bad_output", str(e))
                if r is not None and r.ok and img != r.image:
                    return fail("output file differs from the image assembled in-process", "output_differs",
                                dict(file_bytes=len(img), image_bytes=len(r.image)))
            elif not content:
                return fail("exit status 0 but the output file is empty", "bad_output", "empty")
            return "accepted"
        # rc == 1
        if exists:
            return fail("exit status 1 but a file is left at the output path", "file_left_after_failure",
                        dict(stale=stale, size=len(content)))
        if not diags:
            return fail("exit status 1 without any diagnostic", "status1_without_diagnostic", dict(out=out[-400:]))
        return "rejected"


def run(tier, seed, shard, nshards):
    s = Stats()
    w = Worker("c12")
    ck = Checker(s, w)
    # every CPU with an instruction corpus (error paths differ per back end: dspic defers its failure to a sticky flag)
    c12_cpus = sorted(set(progs.GEN_CPUS) | set(progs.CPU_FILES))
    pools = progs.make_pools(w, c12_cpus)

    def test(c):
        p, typ, listing, cor = c
        s.evaluations += 1
        if cor is None:
            res = ck.run(p.source(), p.files, typ, listing, p.cpu, None, None, False)
            s.count("valid." + res)
            return
        src, files, ctx = apply_corruption(p, cor)
        kind, text, must, pos = cor
        must_reject = must and assembled(ctx, p)
        if kind in STRUCTURAL and ctx not in ("top", "include", "include_in_if"):
            must_reject = False     # inside another block a structural directive may pair up with the block
        if kind == "stray_else" and ctx == "include_in_if":
            # an .else in a file that is included from inside an open .if could be read as that conditional's .else;
            # every other structural corruption there is an error under either reading (a stray .endif would close
            # the includer's .if and make its own .endif stray)
            must_reject = False
        res = ck.run(src, files, typ, listing, p.cpu, kind, ctx, must_reject)
        s.count("corrupt." + res)
        s.count("ctx." + (ctx.split(":")[0]))
        s.count("kind." + kind)
        last = pos[0] == "line" and pos[1] >= len(p.lines)
        if ctx != "top" or last:
            s.nt((kind, ctx.split(":")[0], p.cpu, last))
            if len(s.samples) < 5:
                s.sample(dict(kind=kind, context=ctx, result=res, tail=src[-300:]))

    try:
        n = 1500 if tier == "quick" else 8000
        hyp_run(test, case(pools), n, shard_seed(seed, shard, "c12"), s)
    finally:
        ck.close()
        w.close()
    return s


def selfcheck(m, tier):
    bad = []
    acc = m["classes"].get("valid.accepted", 0)
    rej = m["classes"].get("valid.rejected", 0)
    if acc < 3 * rej:
        bad.append("too many uncorrupted programs are rejected (%d accepted, %d rejected)" % (acc, rej))
    for c in ("ctx.include", "ctx.repeat", "ctx.if_taken", "ctx.if_untaken", "ctx.macro"):
        if m["classes"].get(c, 0) < 5:
            bad.append("context class %s nearly empty" % c)
    return bad


def replay(payload):
    s = Stats()
    w = Worker("c12r")
    ck = Checker(s, w)
    ck.known = []
    try:
        try:
            ck.run(payload["src"], [tuple(f) for f in payload["files"]], payload["type"], payload["listing"],
                   payload["cpu"], payload["corruption"], payload["context"], payload["must_reject"])
        except Violation as v:
            return True, v.payload
        return False, "passes"
    finally:
        ck.close()
        w.close()
