"""C18 The listing file tells the truth about the output."""
import os, re, shutil
from hypothesis import strategies as st

from nvlib import (Worker, WorkerCrash, WorkerTimeout, Stats, Violation, hyp_run, shard_seed, load_known, run_cli,
                   new_scratch)
import progs, formats

PROP = "C18"
RULE = ("Hypothesis structured programs (multi-word instructions, data between code, several .org segments, macros, "
        "includes, repeats) for every CPU with an instruction corpus, assembled by the sanitized CLI with -l. The .lst "
        "is parsed generically: an instruction line is '0xADDR: <hex groups> <text>' (+ continuation lines); for its "
        "address the check disassembles the OUTPUT image itself (same decoder, own call) to get (text, length) and "
        "requires (1) the text on the line is that disassembly, (2) the hex digits shown are exactly the image bytes "
        "[ADDR, ADDR+length) in one of the standard groupings (bytes / 16 / 32 / 64-bit words, either byte order), "
        "(3) every image byte is shown on an instruction line or in the 'data sections' dump with its value, (4) symbol "
        "table and Low/High summary equal the image's. non-trivial = program with data between code and >=2 segments; "
        "distinct key = (cpu, shape)")
ASSUMPTIONS = ["the listing dialect (grouping/byte order of the opcode column) is not tabulated per CPU: any standard "
               "grouping of exactly the instruction's bytes is accepted",
               "CPUs whose formatter cannot be parsed this way are reported in evidence as not covered (notes)"]

ADDR_LINE = re.compile(r"^(?:.*?\S)?0x([0-9a-fA-F]{4,8}):\s*(.*?)\s*$")   # may follow the echo of a macro call
HEXGROUPS = re.compile(r"^((0x)?[0-9a-fA-F]+\s*)+$")
DATA_ROW = re.compile(r"^([0-9a-fA-F]{4,}):((?: [0-9a-fA-F]{2})+)")
SYM_ROW = re.compile(r"^\s*(\S+) ([0-9a-f]{8}) (\d+)( EXPORTED)?$")


def group_values(b):
    """all standard renderings of the bytes b as a sequence of numbers: groups of 1/2/3/4/8 bytes, either order"""
    out = []
    n = len(b)
    for g in (1, 2, 3, 4, 8):
        if n % g == 0:
            out.append([int.from_bytes(b[i:i + g], "big") for i in range(0, n, g)])
            out.append([int.from_bytes(b[i:i + g], "little") for i in range(0, n, g)])
    return out


def shown_values(tokens):
    return [int(t, 16) for t in tokens]


def hex_tokens(s):
    return [t[2:] if t.lower().startswith("0x") else t for t in s.split() if re.match(r"^(0x)?[0-9a-fA-F]+$", t)]


def matches(b, tokens):
    """do the shown hex groups denote exactly the bytes b?  numeric comparison per group (leading zeros of a
    group may be omitted by the formatter), or the digit string as a whole"""
    if not tokens:
        return False
    vals = shown_values(tokens)
    if any(vals == gv for gv in group_values(b)):
        return True
    ds = "".join(tokens).lower()
    cands = {b.hex(), b[::-1].hex()}
    if len(b) % 2 == 0:          # 16-bit words printed as numbers and concatenated (ARC "middle endian" display)
        cands.add("".join(b[i:i + 2][::-1].hex() for i in range(0, len(b), 2)))
    return ds in cands


def norm(s):
    return " ".join(s.split())


class Checker:
    def __init__(self, stats, worker):
        self.s = stats
        self.w = worker
        self.dir = new_scratch("c18cli")
        self.known = load_known(PROP)
        self.skip_cpu = set()
        for f in self.known:
            m = f.get("match", {})
            if m.get("pred") == "cpu":
                self.skip_cpu.update(m.get("cpus", []))

    def close(self):
        shutil.rmtree(self.dir, ignore_errors=True)

    def run_cli(self, p):
        d = self.dir
        for fn in os.listdir(d):
            os.unlink(os.path.join(d, fn))
        with open(os.path.join(d, "prog.asm"), "w", encoding="latin-1") as f:
            f.write(p.source())
        for n, t in p.files:
            with open(os.path.join(d, n), "w", encoding="latin-1") as f:
                f.write(t)
        rc, out, err, to = run_cli("naken_asm_san", ["-l", "-type", "hex", "-o", "out.hex", "prog.asm"], d, timeout=60)
        if to:
            return None
        lst = None
        hexd = None
        if os.path.exists(os.path.join(d, "out.lst")):
            lst = open(os.path.join(d, "out.lst"), "rb").read().decode("latin-1")
        if os.path.exists(os.path.join(d, "out.hex")):
            hexd = open(os.path.join(d, "out.hex"), "rb").read()
        return rc, out, err, lst, hexd

    def check(self, p, cpuinfo):
        """cpuinfo: dict name->(bpa); returns 'ok'/'invalid'; raises Violation"""
        res = self.run_cli(p)
        base = dict(src=p.source(), files=p.files, cpu=p.cpu, engine="c18")
        if res is None:
            self.s.inconclusive += 1
            return "timeout"
        rc, out, err, lst, hexd = res
        if rc not in (0, 1):
            raise Violation(dict(base, what="CLI ended with status %s" % rc, kind="bad_status", observed=err[-1200:]))
        if rc != 0:
            return "invalid"
        if lst is None or hexd is None:
            raise Violation(dict(base, what="no listing/hex file written", kind="no_file", observed=out[-300:]))
        img = formats.read_hex(hexd)[0]
        bpa = cpuinfo[p.cpu]
        cpu_directive = progs.CPU_FILES.get(p.cpu, p.cpu)

        def fail(what, kind, observed):
            if p.cpu in self.skip_cpu:
                for f in self.known:
                    if p.cpu in f.get("match", {}).get("cpus", []) and kind in f["match"].get("kinds", [kind]):
                        self.s.known_hits.setdefault(f["id"], dict(cpu=p.cpu, kind=kind, observed=observed))
                        self.s.excluded_known += 1
                        return "known"
            raise Violation(dict(base, what=what, kind=kind, observed=observed))

        lines = lst.split("\n")
        listed = {}
        cur = None          # [addr, length, text, shown digits, line]

        def finalize():
            nonlocal cur
            if cur is None:
                return None
            a, ln, text, shown, line = cur
            if ln <= 0:
                # the decoder gives no usable length (C08's business): take the bytes the line itself shows
                ln = sum(len(t) for t in shown) // 2
                self.s.count("class.decoder_length_unusable")
            b = bytes(img.get(a + i, 0) for i in range(ln))
            cur = None
            if not matches(b, shown):
                return fail("bytes shown on an instruction line are not the output bytes of that instruction",
                            "wrong_bytes", dict(line=line, address=hex(a), length=ln, image=b.hex(), shown=" ".join(shown)))
            for i in range(ln):
                listed[a + i] = True
            return None

        end = len(lines)
        for i, line in enumerate(lines):
            if line.startswith("data sections:"):
                end = i
                break
        i = 0
        while i < end:
            line = lines[i]
            i += 1
            m = ADDR_LINE.match(line)
            if m:
                a = int(m.group(1), 16) * bpa
                rest = m.group(2)
                if cur is not None and cur[0] < a < cur[0] + max(cur[1], 2) and HEXGROUPS.match(rest or "x"):
                    cur[3] += hex_tokens(rest)
                    continue
                r = finalize()
                if r == "known":
                    return "known"
                ctx = bytes(img.get(a + k, 0) for k in range(32))
                try:
                    d = self.w.dis(cpu_directive, a, ctx)
                except (WorkerCrash, WorkerTimeout) as c:
                    return fail("disassembler crashed on listed address", "crash", str(c))
                if not d:
                    continue
                _, ln, text = d[0]
                if "<<UNTERMINATED>>" in text:
                    self.s.count("class.decoder_text_unusable")      # C08's business
                    continue
                nt = norm(text)
                nr = norm(rest)
                if nt and nr.find(nt) < 0 and ln > 0:
                    # decoders whose text depends on bytes after the instruction (C08 locality, reported there):
                    # at listing time the following bytes were still unwritten
                    try:
                        d0 = self.w.dis(cpu_directive, a, ctx[:ln] + bytes(32 - ln))
                    except (WorkerCrash, WorkerTimeout):
                        d0 = None
                    if d0 and norm(d0[0][2]) and nr.find(norm(d0[0][2])) >= 0 and d0[0][1] == ln:
                        nt = norm(d0[0][2])
                        self.s.count("class.text_depends_on_following_bytes")
                if nt:
                    idx = nr.find(nt)
                else:
                    m2 = re.match(r"^((?:(?:0x[0-9a-fA-F]+|[0-9a-fA-F]{2,}) ?)+)", nr)
                    idx = len(m2.group(1)) if m2 else -1
                if idx < 0:
                    return fail("text on the instruction line is not the disassembly of the bytes at that address",
                                "wrong_text", dict(line=line, address=hex(a), disassembly=text))
                cur = [a, ln, text, hex_tokens(nr[:idx]), line]
                continue
            if cur is not None and sum(len(t) for t in cur[3]) < 2 * cur[1] and line[:1] in (" ", "\t") and \
                    HEXGROUPS.match(line.strip() or "x"):
                cur[3] += hex_tokens(line)
                continue
        r = finalize()
        if r == "known":
            return "known"
        # data sections dump
        j = end + 1
        data_listed = {}
        while j < len(lines):
            m = DATA_ROW.match(lines[j])
            if not m:
                if lines[j].startswith("Program Info"):
                    break
                j += 1
                continue
            a = int(m.group(1), 16) * bpa
            for k, h in enumerate(m.group(2).split()[:16]):
                data_listed[a + k] = int(h, 16)
            j += 1
        for a, v in data_listed.items():
            if img.get(a) != v:
                return fail("byte in the data-section dump differs from the output", "wrong_data_dump",
                            dict(address=hex(a), shown=v, image=img.get(a)))
        missing = [hex(a) for a in sorted(img) if a not in listed and a not in data_listed]
        if missing:
            return fail("bytes of the output that appear nowhere in the listing", "not_listed",
                        dict(count=len(missing), first=missing[:8]))
        extra = [hex(a) for a in sorted(listed) if a not in img]
        if extra:
            return fail("listing shows instruction bytes at addresses the output does not contain", "extra_listed",
                        dict(first=extra[:8]))
        # symbol table + summary
        syms = {}
        low = high = None
        for ln_ in lines[end:]:
            m = SYM_ROW.match(ln_)
            if m and m.group(1) != "LABEL":
                syms[(m.group(1), int(m.group(3)))] = int(m.group(2), 16)
            m = re.match(r"^\s*Low Address: 0x([0-9a-f]+)", ln_)
            if m:
                low = int(m.group(1), 16)
            m = re.match(r"^\s*High Address: 0x([0-9a-f]+)", ln_)
            if m:
                high = int(m.group(1), 16)
        for n_, t_ in p.files:
            self.w.write_file(n_, t_)
        try:
            r = self.w.asm(p.source(), flags="F")
            want = r.symdict(2) if r.ok else None
        except (WorkerCrash, WorkerTimeout):
            want = None
        if want is not None and syms != want:
            d_ = sorted(set(syms.items()) ^ set(want.items()))[:6]
            return fail("symbol table of the listing differs from the assembled symbols", "wrong_symbols", repr(d_))
        if img and (low != min(img) // bpa or high != max(img) // bpa):
            return fail("Low/High address summary does not match the image", "wrong_summary",
                        dict(low=low, high=high, image_low=min(img) // bpa, image_high=max(img) // bpa))
        return "ok"


LIST_CPUS = sorted(c for c in progs.CPU_FILES if c not in ("ps2_ee", "pic32", "n64_rsp", "riscv64"))


def run(tier, seed, shard, nshards):
    s = Stats()
    w = Worker("c18")
    ck = Checker(s, w)
    mine = [c for i, c in enumerate(LIST_CPUS) if i % nshards == shard]
    pools = progs.make_pools(w, mine, want=25, multiword=True)
    cpuinfo = {c["name"]: c["unit"] for c in w.cpus()}
    cpuinfo = {c: cpuinfo[progs.CPU_FILES.get(c, c)] for c in mine}
    survey = os.environ.get("NV_SURVEY") == "1"

    def test(p):
        s.evaluations += 1
        try:
            res = ck.check(p, cpuinfo)
        except Violation as v:
            if survey:
                s.notes.append("SURVEY\t%s\t%s\t%s" % (p.cpu, v.payload["kind"], repr(v.payload["observed"])[:300]))
                return
            raise
        s.count("result." + res)
        s.count("cpu.%s.%s" % (p.cpu, res))
        if res != "ok":
            return
        data_between = any(x.strip().startswith(".d") or x.strip().startswith(".ascii") for x in p.lines)
        nseg = sum(1 for x in p.lines if x.startswith(".org")) + 1
        if any(x.startswith(".org 0x") and int(x.split()[1], 16) >= 0x10000 for x in p.lines):
            s.count("class.far_segment")
        if data_between:
            s.nt((p.cpu, nseg, "macro" in " ".join(p.ctx), bool(p.files)))
            if len(s.samples) < 3:
                s.sample(dict(cpu=p.cpu, src=p.source()[:400]))

    try:
        n = 1600 if tier == "quick" else 6000
        hyp_run(test, progs.structured_program(pools, cpus=mine, repeats=False, far_orgs=True), n, shard_seed(seed, shard, "c18"), s)
    finally:
        ck.close()
        w.close()
    return s


def replay(payload):
    s = Stats()
    w = Worker("c18r")
    ck = Checker(s, w)
    ck.skip_cpu = set()
    try:
        p = progs.Prog(payload["cpu"])
        p.lines = payload["src"].rstrip("\n").split("\n")
        p.files = [tuple(f) for f in payload["files"]]
        cpuinfo = {c["name"]: c["unit"] for c in w.cpus()}
        cpuinfo = {payload["cpu"]: cpuinfo[progs.CPU_FILES.get(payload["cpu"], payload["cpu"])]}
        try:
            ck.check(p, cpuinfo)
        except Violation as v:
            return True, v.payload
        return False, "passes"
    finally:
        ck.close()
        w.close()
