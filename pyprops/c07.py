"""C07 Decode -> encode -> decode is a fixpoint over all machine words (also feeds C01's source (c))."""
import json, os, re
from nvlib import (Worker, WorkerCrash, WorkerTimeout, Stats, Violation, shard_seed, load_known, repo_re)

PROP = "C07"
RULE = ("enumeration inside the harness: for each of the 68 CPUs the leading 16-bit patterns (quick: every 8th, "
        "thorough: all 65,536) x 1 (quick) / 3 (thorough) tails (zeros, ones, keyed) are disassembled at address 0x100; "
        "for the CPUs with 32-bit instruction words additionally every 65th (quick) / 13th (thorough) leading half "
        "word x 37 structured second half words (each single bit, each adjacent bit pair, 6 masks); every rendering "
        "that is not an 'unknown' one is fed to the real assembler (in-process, sanitized, forked per chunk) at the "
        "same address; if it is accepted the produced bytes followed by the original tail are disassembled again and "
        "the two renderings must be equal after normalisation (case, white space, numeric literals compared by value, "
        "emulated-instruction prefix 'xxx  --  ' dropped). Renderings that the assembler only accepts without the "
        "decoder's trailing '(offset=..)' style annotation are compared in a separate class 'stripped'. non-trivial = "
        "accepted and re-decoded; distinct key = (cpu, mnemonic)")
ASSUMPTIONS = ["bytes may differ between the original and the re-assembled word (don't-care bits); only the rendering is compared",
               "32-bit opcode spaces are covered through their leading half word and three tails only"]

NUM = re.compile(r"(?<![A-Za-z_.])(-?)(0x[0-9a-fA-F]+|\$[0-9a-fA-F]+|[0-9]+)(?![A-Za-z_])")


def norm(t):
    t = t.strip().lower()
    if "  --  " in t:
        t = t.split("  --  ")[-1].strip()
    def repl(m):
        s = m.group(2)
        v = int(s[2:], 16) if s.startswith("0x") else (int(s[1:], 16) if s.startswith("$") else int(s))
        if m.group(1):
            v = -v
        return "<%d>" % v
    t = NUM.sub(repl, t)
    return " ".join(t.split())


def same(t1, t2):
    """equal after normalisation; a number and its signed spelling in 8/16/32 bits are the same operand"""
    a, b = norm(t1), norm(t2)
    if a == b:
        return True
    na = re.findall(r"<(-?\d+)>", a)
    nb = re.findall(r"<(-?\d+)>", b)
    if len(na) != len(nb) or re.sub(r"<-?\d+>", "N", a) != re.sub(r"<-?\d+>", "N", b):
        return False
    da, db = hexdigits(t1), hexdigits(t2)
    if len(da) != len(na) or len(db) != len(nb):
        da, db = [0] * len(na), [0] * len(nb)
    for i, (x, y) in enumerate(zip(na, nb)):
        x, y = int(x), int(y)
        if x == y:
            continue
        lo, hi = min(x, y), max(x, y)
        # a hex literal printed with d digits shows a field of 4*d bits: 0x00ff (16 bits) is not -1
        wmin = 4 * max(da[i], db[i])
        if not (lo < 0 <= hi and any(w >= wmin and hi - lo == (1 << w) and -lo <= (1 << (w - 1)) for w in (8, 16, 32))):
            return False
    return True


def hexdigits(t):
    """per numeric literal of a rendering: number of hex digits it is printed with (0 for decimal)"""
    t = t.strip().lower()
    if "  --  " in t:
        t = t.split("  --  ")[-1].strip()
    out = []
    for m in NUM.finditer(t):
        sp = m.group(2)
        out.append(len(sp) - 2 if sp.startswith("0x") else (len(sp) - 1 if sp.startswith("$") else 0))
    return out


def signature(t1, t2):
    """coarse class of a disagreement: which part of the rendering changed"""
    a, b = norm(t1).split(), norm(t2).split()
    if not a or not b or a[0] != b[0]:
        return "mnemonic"
    if re.sub(r"<-?\d+>", "N", " ".join(a)) != re.sub(r"<-?\d+>", "N", " ".join(b)):
        return "operands"
    return "numeric"


class Known:
    def __init__(self, prop):
        self.by = {}
        for f in load_known(prop):
            m = f.get("match", {})
            if m.get("pred") == "cpu_kind_mnemonics":
                for cpu in m["cpus"]:
                    for mn in m["mnemonics"]:
                        self.by[(cpu, m["kind"], mn, m.get("signature", "*"))] = f["id"]

    def match(self, cpu, kind, mn, sig="*"):
        return (self.by.get((cpu, kind, mn, sig)) or self.by.get((cpu, kind, mn, "*")) or
                self.by.get((cpu, kind, "*", sig)) or self.by.get((cpu, kind, "*", "*")))


def refix_signature(want_hex, got_hex):
    """how the re-assembled bytes differ from the emitted ones: a known disagreement of one shape (say: the
    disassembler shows a 16-bit offset that the assembler re-encodes in the short form) must not hide a different
    one on the same mnemonic"""
    if len(got_hex) < len(want_hex):
        return "shorter"
    if len(got_hex) > len(want_hex):
        return "longer"
    return "samelen"


def scan(w, s, name, tier, kinds_wanted, known, prop, survey, align=0, deep=False):
    """runs c07scan for one cpu; returns list of violation payloads for `prop`"""
    step = 7 if tier == "quick" else 1          # odd: a power of two would pin the low bits of the second byte
    tails = 1 if tier == "quick" else 3
    errpos = os.path.getsize(w.errpath) if os.path.exists(w.errpath) else 0
    # deep (byte-oriented ISAs): where the third or fourth byte selects the instruction (prefix opcodes, post bytes)
    # all 256 values of that byte are explored for the leading pattern
    passes = [dict(step=str(step), tails=str(tails), stails="0", lo="0", deep="1" if deep else "0")]
    if align in (2, 4):
        # 32-bit instruction words / 16-bit words with extension words: structured second half words (single bits,
        # adjacent bit pairs, masks such as 0x00ff / 0xff00) on a stride that is coprime to every field width
        if align == 2 and tier == "quick":
            # 16-bit words: every 13th pattern like the thorough tier, but only the patterns whose instruction has an
            # extension word (a subset of the thorough tier's set)
            passes.append(dict(step="13", tails="0", stails="37", lo="3", extonly="1"))
        else:
            passes.append(dict(step="65" if tier == "quick" else "13", tails="0", stails="37", lo="3"))   # quick is a subset of thorough
    anomalies = b""
    tot = dict(evals=0, accepted=0, closed=0, unknown=0, stripped=0)
    for ps in passes:
        try:
            r = w.call({"cmd": "c07scan", "cpu": name, "lo": ps["lo"], "hi": "65535", "step": ps["step"], "tails": ps["tails"],
                        "stails": ps["stails"], "addr": "256", "deep": ps.get("deep", "0"),
                        "extonly": ps.get("extonly", "0")})
        except (WorkerCrash, WorkerTimeout) as e:
            s.notes.append("HARNESS-ERROR c07scan for %s did not complete: %s" % (name, type(e).__name__))
            return []
        anomalies += r["anomalies"]
        for k in tot:
            tot[k] += int(r[k])
        for mn in r.get("closed_mnemonics", b"").decode("latin-1").split("\n"):
            if mn:
                s.nt((name, mn.lower()))
    r = dict(tot, anomalies=anomalies)
    s.evaluations += int(r["evals"])
    s.count("decoded.%s" % name, int(r["evals"]))
    s.count("accepted.%s" % name, int(r["accepted"]))
    s.count("closed.%s" % name, int(r["closed"]))
    s.count("total.unknown_rendering", int(r["unknown"]))
    s.count("total.accepted", int(r["accepted"]))
    s.count("total.accepted_stripped", int(r["stripped"]))
    if int(r["accepted"]) == 0:
        s.count("vacuous_cpu." + name)
    if len(s.samples) < 2:
        try:
            pat = bytes([0x43, 0x21, 0x12, 0x34, 0x56, 0x78, 0x9a, 0xbc])
            d = w.dis(name, 256, pat, count=1)
            s.sample(dict(cpu=name, bytes=pat.hex(), first_rendering=d[0][2] if d else None, decoded=int(r["evals"]),
                          accepted_by_assembler=int(r["accepted"]), same_rendering_again=int(r["closed"])))
        except (WorkerCrash, WorkerTimeout):
            pass
    crash_detail = ""
    try:
        with open(w.errpath, "rb") as f:
            f.seek(errpos)
            err = f.read().decode("latin-1")
        m = re.search(r"(" + repo_re() + r"/\S+:\d+)[^\n]*runtime error: ([^\n]*)", err) or \
            re.search(r"ERROR: AddressSanitizer: (\S+)[^\n]*\n(?:[^\n]*\n){0,4}?\s*#0 [^\n]* in ([^\n]*)", err)
        crash_detail = (m.group(0) if m else "")[:250]
    except OSError:
        pass
    groups = {}
    for line in r["anomalies"].decode("latin-1").split("\n"):
        if not line:
            continue
        f = line.split("\t")
        kind = f[0]
        if kind in ("crash", "hang"):
            kind2 = "asm_" + kind
            if "asm_crash" in kinds_wanted:
                groups.setdefault((kind2, "*"), []).append(dict(pattern=int(f[1]), detail=crash_detail or f[3]))
            continue
        if kind == "c07_mismatch":
            p, tail, mode, t1, t2 = int(f[1]), int(f[2]), f[3], f[4], f[5]
            if same(t1, t2):
                s.count("closed_after_normalisation")
                continue
            mn = norm(t1).split()[0] if norm(t1).split() else "?"
            mn = mn + "/" + signature(t1, t2)
            groups.setdefault(("c07_mismatch", mn), []).append(dict(pattern=p, tail=tail, mode=mode, first=t1, second=t2))
        elif kind in ("c01_walk", "c01_refix"):
            p, tail, t1, detail = int(f[1]), int(f[2]), f[3], f[4]
            mn = norm(t1).split()[0] if norm(t1).split() else "?"
            if kind == "c01_refix" and " vs " in detail:
                h2, h3 = detail.split(" vs ", 1)
                mn = mn + "/" + refix_signature(h2.strip(), h3.strip())
            groups.setdefault((kind, mn), []).append(dict(pattern=p, tail=tail, text=t1, detail=detail))
    out = []
    for (kind, mn), lst in sorted(groups.items()):
        if kind not in kinds_wanted:
            continue
        if survey:
            s.notes.append("SURVEY\t%s\t%s\t%s\t%d\t%s" % (name, kind, mn, len(lst), json.dumps(dict(lst[0], mode="scan"))))
            continue
        fid = known.match(name, kind, mn.split("/")[0], mn.split("/")[1] if "/" in mn else "*")
        if fid:
            s.known_hits.setdefault(fid, dict(cpu=name, kind=kind, mnemonic=mn, example=lst[0]))
            s.excluded_known += len(lst)
            continue
        ex = lst[0]
        out.append(dict(engine="c07", cpu=name, kind=kind, mnemonic=mn, what={
            "c07_mismatch": "disassembly of the re-assembled bytes differs from the first disassembly",
            "c01_walk": "walking the disassembler over the bytes emitted for this rendering does not consume exactly those bytes",
            "c01_refix": "re-assembling the disassembly of the emitted bytes gives different bytes",
            "asm_crash": "the assembler crashed on a rendering produced by its own disassembler",
            "asm_hang": "the assembler hung on a rendering produced by its own disassembler"}[kind],
            count=len(lst), **ex))
    return out


def run(tier, seed, shard, nshards):
    s = Stats()
    w = Worker("c07", timeout=3000)
    known = Known(PROP)
    survey = os.environ.get("NV_SURVEY") == "1"
    try:
        cpus = w.cpus()
        mine = [c for i, c in enumerate(cpus) if i % nshards == shard]
        for c in mine:
            for v in scan(w, s, c["name"], tier, ("c07_mismatch", "asm_crash", "asm_hang"), known, PROP, survey, c["align"],
                          deep=(c["unit"] == 1 and c["align"] == 1)):
                s.violations.append(v)
    finally:
        w.close()
    return s


def EXTRA(m):
    vac = sorted(k.split(".", 1)[1] for k in m["classes"] if k.startswith("vacuous_cpu."))
    return dict(vacuous_cpus=vac, explanation="CPUs whose renderings the assembler never accepts are listed in vacuous_cpus")


def replay(payload):
    w = Worker("c07r", timeout=600)
    s = Stats()
    try:
        p = payload["pattern"]
        r = w.call({"cmd": "c07scan", "cpu": payload["cpu"], "lo": str(p), "hi": str(p), "step": "1", "tails": "3",
                    "stails": "37", "addr": "256", "deep": "1"})
        for line in r["anomalies"].decode("latin-1").split("\n"):
            f = line.split("\t")
            if f[0] == payload["kind"] or (payload["kind"].startswith("asm_") and f[0] == payload["kind"][4:]):
                if f[0] == "c07_mismatch" and same(f[4], f[5]):
                    continue
                return True, line[:300]
        return False, "passes"
    finally:
        w.close()
