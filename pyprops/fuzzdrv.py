"""Shared libFuzzer campaign driver for C16 / C17."""
import os, re, glob, shutil, hashlib, subprocess, time, base64
from nvlib import Stats, shard_seed, load_known, repo_re
import nvbuild


class Known:
    def __init__(self, prop):
        self.items = []
        for f in load_known(prop):
            m = f.get("match", {})
            if m.get("pred") == "crash_site":
                self.items.append((f["id"], m))

    def match(self, site, target=None):
        for fid, m in self.items:
            if m.get("target") and target and m["target"] != target:
                continue
            if any(sub in site for sub in m["sites"]):
                return fid
        return None

    def avoid(self, target=None):
        out = []
        for fid, m in self.items:
            if m.get("target") and target and m["target"] != target:
                continue
            out += ["%s\t%d" % (a["contains"].lower(), a["token_len"]) for a in m.get("avoid", [])]
        return out


def bin_path(name):
    return os.path.join(nvbuild.build_dir(nvbuild.repo_dir()), name)


def tmp_base():
    return "/dev/shm" if os.path.isdir("/dev/shm") and os.access("/dev/shm", os.W_OK) else "/verif/build"


def crash_site(report):
    """first frame inside /repo (file:function), or the UBSan location"""
    m = re.search(repo_re() + r"/(\S+?):(\d+):\d+: runtime error: ([^\n]*)", report)
    if m:
        return "%s: %s" % (m.group(1), re.sub(r"-?\d+", "N", m.group(3))[:80]), m.group(0)[:300]
    m = re.search(r"C1[67]-ORACLE: ([^\n]*)", report)
    if m:
        return "oracle: " + m.group(1)[:80], m.group(0)
    kind = re.search(r"ERROR: AddressSanitizer: (\S+)", report)
    fr = re.search(r"#\d+ 0x[0-9a-f]+ in (\S+)[^\n]* " + repo_re() + r"/(\S+?):\d+", report)
    if kind or fr:
        return "%s in %s %s" % (kind.group(1) if kind else "signal", fr.group(2) if fr else "?", fr.group(1) if fr else "?"), \
            (kind.group(0) if kind else "") + " " + (fr.group(0) if fr else "")
    m = re.search(r"ERROR: libFuzzer: ([^\n]*)", report)
    return ("libFuzzer: " + m.group(1) if m else "unknown"), report[-300:]


def run_target_on(target, path, timeout=120, unit_timeout=60):
    env = dict(os.environ, ASAN_OPTIONS="detect_leaks=0", NV_FUZZ_TMP=tmp_base())
    env.pop("NV_FUZZ_STATS", None)
    try:
        p = subprocess.run([bin_path(target), "-timeout=%d" % unit_timeout, "-rss_limit_mb=4000", path],
                           capture_output=True, timeout=timeout, env=env)
        return p.returncode, (p.stdout + p.stderr).decode("latin-1")
    except subprocess.TimeoutExpired:
        return None, "timeout"


def cleanup_scratch():
    for d in glob.glob(tmp_base() + "/nvfuzz_*.*"):
        pid = d.rsplit(".", 1)[1]
        if pid.isdigit() and not os.path.exists("/proc/" + pid):
            shutil.rmtree(d, ignore_errors=True)


def campaign(s, prop, target, tier, seed, shard, budget, make_seeds, dict_words, regress_glob, timeout_check=None,
             max_len=8192, unit_timeout=10, what="crashed / corrupted memory (sanitizer report or signal)"):
    """one libFuzzer process for `budget` seconds (restarted after each crash); fills Stats s"""
    known = Known(prop)
    survey = os.environ.get("NV_SURVEY") == "1"
    base = "/verif/build/fuzz/%s/%s-%s/%s-shard%02d" % (prop.lower(), tier, seed, target, shard)
    shutil.rmtree(base, ignore_errors=True)
    os.makedirs(base)
    corpus = os.path.join(base, "corpus")
    os.makedirs(corpus)
    nseeds = make_seeds(corpus)
    s.count("seed_files." + target, nseeds)
    with open(os.path.join(base, "dict"), "w") as f:
        for i, w in enumerate(dict_words):
            if isinstance(w, str):
                w = w.encode("latin-1")
            f.write('kw%d="%s"\n' % (i, "".join("\\x%02x" % b for b in w)))
    avoid = known.avoid(target)
    with open(os.path.join(base, "avoid"), "w") as f:
        f.write("\n".join(avoid) + ("\n" if avoid else ""))
    env = dict(os.environ, ASAN_OPTIONS="detect_leaks=0", NV_FUZZ_TMP=tmp_base(), NV_FUZZ_STATS=os.path.join(base, "stats"),
               NV_FUZZ_AVOID=os.path.join(base, "avoid"))
    if shard == 0:
        for p in sorted(glob.glob(regress_glob)):
            rc, out = run_target_on(target, p)
            s.evaluations += 1
            s.count("regression_inputs_replayed")
            if rc != 0:
                site, detail = crash_site(out)
                fid = known.match(site, target)
                if fid:
                    s.known_hits.setdefault(fid, dict(site=site, input=os.path.basename(p)))
                    continue
                if survey:
                    s.notes.append("SURVEY\t%s\tregression %s\t%s\t%s" % (target, site, detail.replace("\n", " ")[:200], p))
                    continue
                s.violations.append(dict(engine=prop.lower(), target=target, kind="regression", site=site, detail=detail,
                                         artifact_b64=base64.b64encode(open(p, "rb").read()).decode(),
                                         what="a committed regression input fails again"))
    t_end = time.time() + budget
    rounds = 0
    sites_seen = {}
    totals = {}
    while time.time() < t_end - 5 and rounds < 8:
        rounds += 1
        left = int(t_end - time.time())
        art = os.path.join(base, "art%d" % rounds)
        os.makedirs(art, exist_ok=True)
        cmd = [bin_path(target), "-seed=%d" % (shard_seed(seed, shard, prop + target) % 2000000000 + rounds),
               "-max_total_time=%d" % left, "-timeout=%d" % unit_timeout, "-rss_limit_mb=4000", "-max_len=%d" % max_len,
               "-print_final_stats=1", "-artifact_prefix=" + art + "/", "-dict=" + os.path.join(base, "dict"), corpus]
        try:
            p = subprocess.run(cmd, capture_output=True, env=env, timeout=left + 120)
            log = (p.stdout + p.stderr).decode("latin-1")
        except subprocess.TimeoutExpired:
            log = ""
            s.inconclusive += 1
        with open(os.path.join(base, "log%d.txt" % rounds), "w") as f:
            f.write(log[-200000:])
        try:
            for l in open(os.path.join(base, "stats")):
                k, v = l.split()
                totals[k] = totals.get(k, 0) + int(v)
            os.remove(os.path.join(base, "stats"))
        except (OSError, ValueError):
            pass
        arts = sorted(glob.glob(art + "/*"))
        if not arts:
            break
        for a in arts:
            name = os.path.basename(a)
            data = open(a, "rb").read()
            if name.startswith(("crash-", "leak-")):
                rc, out = run_target_on(target, a)
                site, detail = crash_site(out if rc not in (0, None) else log)
                sites_seen[site] = sites_seen.get(site, 0) + 1
                if survey:
                    s.notes.append("SURVEY\t%s\t%s\t%s\t%s" % (target, site, detail.replace("\n", " ")[:200], a))
                    shutil.copy(a, "/verif/build/survey_%s_%s" % (prop.lower(), hashlib.sha1(site.encode()).hexdigest()[:10]))
                    continue
                fid = known.match(site, target)
                if fid:
                    s.known_hits.setdefault(fid, dict(site=site))
                    s.excluded_known += 1
                    continue
                s.violations.append(dict(engine=prop.lower(), target=target, kind="crash", site=site, detail=detail,
                                         artifact_b64=base64.b64encode(data).decode(),
                                         input_head=data[:300].decode("latin-1"), what=what))
            elif name.startswith("timeout-"):
                still = timeout_check(a, data) if timeout_check else None
                if still is None:
                    rc, out = run_target_on(target, a, timeout=90, unit_timeout=60)
                    still = rc is None or (rc != 0 and "timeout" in out.lower())
                if still:
                    if survey:
                        s.notes.append("SURVEY\t%s\thang\t\t%s" % (target, a))
                        shutil.copy(a, "/verif/build/survey_%s_hang_%s" % (prop.lower(), hashlib.sha1(data).hexdigest()[:8]))
                        continue
                    fid = known.match("hang", target)
                    if fid:
                        s.known_hits.setdefault(fid, dict(site="hang"))
                        continue
                    s.violations.append(dict(engine=prop.lower(), target=target, kind="hang", site="hang",
                                             detail="still running after 60 s", artifact_b64=base64.b64encode(data).decode(),
                                             input_head=data[:300].decode("latin-1"), what="does not terminate on this input"))
                else:
                    s.count("timeouts_not_reproduced")
            else:
                s.count("artifact_ignored." + name.split("-")[0])
        if any(v >= 3 for v in sites_seen.values()):
            break
    s.evaluations += totals.get("exec", 0)
    for k, v in totals.items():
        s.count("%s.%s" % (target, k), v)
    s.count("fuzz_rounds." + target, rounds)
    units = 0
    for p in glob.glob(corpus + "/*"):
        units += 1
        s.nt((target, os.path.basename(p)[:16]))
    s.count("corpus_units." + target, units)
    if len(s.samples) < 3:
        for p in sorted(glob.glob(corpus + "/*"), key=os.path.getmtime)[-1:]:
            s.sample(dict(target=target, unit=os.path.basename(p), head=open(p, "rb").read()[:100].decode("latin-1")))
    if not os.environ.get("NV_KEEP_FUZZ"):
        shutil.rmtree(base, ignore_errors=True)
    cleanup_scratch()


def replay(prop, payload, default_target):
    target = payload.get("target", default_target)
    d = "/verif/build/fuzz/%s/replay" % prop.lower()
    os.makedirs(d, exist_ok=True)
    p = os.path.join(d, "input_%d" % os.getpid())
    with open(p, "wb") as f:
        f.write(base64.b64decode(payload["artifact_b64"]))
    try:
        if payload.get("kind") == "hang":
            rc, out = run_target_on(target, p, timeout=60, unit_timeout=20)
            return rc is None or rc != 0, "still running after 20 s"
        rc, out = run_target_on(target, p)
        if rc not in (0,):
            return True, crash_site(out)[1]
        return False, "passes"
    finally:
        os.remove(p)
        cleanup_scratch()
