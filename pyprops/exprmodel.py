"""Reference evaluator for naken_asm integer expressions (property C04).

Written from the property statement: 64-bit two's-complement arithmetic,
precedence  unary - ~  >  * / %  >  + -  >  << >>  >  &  >  ^  >  |,
left-to-right association, parentheses.  Independent of core/eval_expression.

An expression is a nested structure
   Expr  = [Term, op, Term, op, Term ...]
   Term  = (unaries, atom)         unaries: string over "-~", applied right-to-left
   atom  = ("lit", value, text) | ("par", Expr)
"""

M64 = (1 << 64) - 1
PREC = {"*": 1, "/": 1, "%": 1, "+": 2, "-": 2, "<<": 3, ">>": 3, "&": 4, "^": 5, "|": 6}
OPS = ["*", "/", "%", "+", "-", "<<", ">>", "&", "^", "|"]


class NoValue(Exception):
    """division or modulo by zero: the expression has no value"""


class Ambiguous(Exception):
    """the statement leaves the value open (shift count outside 0..63, INT64_MIN / -1)"""


def s64(v):
    v &= M64
    return v - (1 << 64) if v >> 63 else v


def apply(op, a, b):
    # a, b signed 64-bit python ints
    if op == "*":
        return s64(a * b)
    if op == "+":
        return s64(a + b)
    if op == "-":
        return s64(a - b)
    if op in ("/", "%"):
        if b == 0:
            raise NoValue()
        if a == -(1 << 63) and b == -1:
            raise Ambiguous()
        q = abs(a) // abs(b)
        if (a < 0) != (b < 0):
            q = -q
        if op == "/":
            return s64(q)
        return s64(a - q * b)
    if op == "<<":
        if b < 0 or b > 63:
            raise Ambiguous()
        return s64(a << b)
    if op == ">>":
        if b < 0 or b > 63:
            raise Ambiguous()
        return s64(a >> b)          # arithmetic shift of the two's-complement value
    if op == "&":
        return s64(a & b)
    if op == "^":
        return s64(a ^ b)
    if op == "|":
        return s64(a | b)
    raise ValueError(op)


def eval_term(t):
    un, atom = t
    if atom[0] == "lit":
        v = s64(atom[1])
    else:
        v = eval_expr(atom[1])
    for u in reversed(un):
        v = s64(-v) if u == "-" else s64(~v)
    return v


def eval_expr(e):
    """precedence climbing over the flat [term, op, term, ...] list"""
    vals = [eval_term(e[0])]
    ops = []
    def reduce_top():
        b = vals.pop()
        a = vals.pop()
        vals.append(apply(ops.pop(), a, b))
    i = 1
    while i < len(e):
        op = e[i]
        while ops and PREC[ops[-1]] <= PREC[op]:
            reduce_top()
        ops.append(op)
        vals.append(eval_term(e[i + 1]))
        i += 2
    while ops:
        reduce_top()
    return vals[0]


def render(e, sp=None):
    """text of an expression; sp(i) -> whitespace string between tokens"""
    out = []
    def ws():
        return sp() if sp else " "
    def term(t):
        un, atom = t
        s = ""
        for u in un:
            s += u + (sp() if sp else "")
        if atom[0] == "lit":
            return s + atom[2]
        return s + "(" + ws() + render(atom[1], sp) + ws() + ")"
    out.append(term(e[0]))
    i = 1
    while i < len(e):
        out.append(ws() + e[i] + ws())
        out.append(term(e[i + 1]))
        i += 2
    return "".join(out)


def ops_of(e):
    """flat operator sequences (one per parenthesis level), for keys/known-finding predicates"""
    seqs = [tuple(e[i] for i in range(1, len(e), 2))]
    for i in range(0, len(e), 2):
        un, atom = e[i]
        if atom[0] == "par":
            seqs.extend(ops_of(atom[1]))
    return seqs


def prec_levels(e):
    s = set()
    for seq in ops_of(e):
        for o in seq:
            s.add(PREC[o])
    return s
