"""Independent reference encoders (written from the architecture manuals, not from /repo):
MSP430 16-bit core (SLAU144 ch. 3: 27 core instructions, 7 source / 4 destination addressing modes,
constant generators) and RISC-V RV32I base (unprivileged spec ch. 2 / 24: 40 instructions)."""

# ------------------------------------------------------------------ MSP430
MSP_TWO = {"mov": 4, "add": 5, "addc": 6, "subc": 7, "sub": 8, "cmp": 9, "dadd": 10, "bit": 11, "bic": 12,
           "bis": 13, "xor": 14, "and": 15}
MSP_ONE = {"rrc": 0, "swpb": 1, "rra": 2, "sxt": 3, "push": 4, "call": 5}
MSP_JMP = {"jne": 0, "jeq": 1, "jnc": 2, "jc": 3, "jn": 4, "jge": 5, "jl": 6, "jmp": 7}
CG = {0: (3, 0), 1: (3, 1), 2: (3, 2), -1: (3, 3), 4: (2, 2), 8: (2, 3)}


def msp_src(op, pc_ext):
    """op: ('reg',n) ('idx',x,n) ('sym',addr) ('abs',addr) ('ind',n) ('inc',n) ('imm',v)
    returns (reg, As, ext or None); pc_ext = address of the extension word if one is emitted"""
    k = op[0]
    if k == "reg":
        return op[1], 0, None
    if k == "idx":
        return op[2], 1, op[1] & 0xffff
    if k == "sym":
        return 0, 1, (op[1] - pc_ext) & 0xffff
    if k == "abs":
        return 2, 1, op[1] & 0xffff
    if k == "ind":
        return op[1], 2, None
    if k == "inc":
        return op[1], 3, None
    if k == "imm":
        v = op[1]
        if v in CG:
            r, a = CG[v]
            return r, a, None
        return 0, 3, v & 0xffff
    raise ValueError(op)


def msp_dst(op, pc_ext):
    k = op[0]
    if k == "reg":
        return op[1], 0, None
    if k == "idx":
        return op[2], 1, op[1] & 0xffff
    if k == "sym":
        return 0, 1, (op[1] - pc_ext) & 0xffff
    if k == "abs":
        return 2, 1, op[1] & 0xffff
    raise ValueError(op)


def msp430_encode(ins, addr):
    """ins: ('two', name, bw, src, dst) | ('one', name, bw, op) | ('jmp', name, target) | ('reti',)
    returns list of 16-bit words"""
    if ins[0] == "reti":
        return [0x1300]
    if ins[0] == "jmp":
        off = (ins[2] - (addr + 2)) // 2
        return [0x2000 | (MSP_JMP[ins[1]] << 10) | (off & 0x3ff)]
    if ins[0] == "one":
        _, name, bw, op = ins
        r, a, ext = msp_src(op, addr + 2)
        w = 0x1000 | (MSP_ONE[name] << 7) | (bw << 6) | (a << 4) | r
        return [w] + ([ext] if ext is not None else [])
    _, name, bw, src, dst = ins
    sr, sa, sext = msp_src(src, addr + 2)
    dext_addr = addr + 2 + (2 if sext is not None else 0)
    dr, da, dext = msp_dst(dst, dext_addr)
    w = (MSP_TWO[name] << 12) | (sr << 8) | (da << 7) | (bw << 6) | (sa << 4) | dr
    out = [w]
    if sext is not None:
        out.append(sext)
    if dext is not None:
        out.append(dext)
    return out


def msp_operand_text(op):
    k = op[0]
    if k == "reg":
        return "r%d" % op[1]
    if k == "idx":
        return "%d(r%d)" % (op[1], op[2])
    if k == "sym":
        return "0x%04x" % op[1]
    if k == "abs":
        return "&0x%04x" % op[1]
    if k == "ind":
        return "@r%d" % op[1]
    if k == "inc":
        return "@r%d+" % op[1]
    if k == "imm":
        return "#%d" % op[1] if op[1] < 0 else "#0x%x" % op[1]
    raise ValueError(op)


def msp430_text(ins):
    if ins[0] == "reti":
        return "reti"
    if ins[0] == "jmp":
        return "%s 0x%04x" % (ins[1], ins[2])
    if ins[0] == "one":
        _, name, bw, op = ins
        suffix = "" if name in ("swpb", "sxt", "call") else (".b" if bw else ".w")
        return "%s%s %s" % (name, suffix, msp_operand_text(op))
    _, name, bw, src, dst = ins
    return "%s%s %s, %s" % (name, ".b" if bw else ".w", msp_operand_text(src), msp_operand_text(dst))


# ------------------------------------------------------------------- RV32I
def _r(f7, rs2, rs1, f3, rd, opc):
    return (f7 << 25) | (rs2 << 20) | (rs1 << 15) | (f3 << 12) | (rd << 7) | opc


def _i(imm, rs1, f3, rd, opc):
    return ((imm & 0xfff) << 20) | (rs1 << 15) | (f3 << 12) | (rd << 7) | opc


def _s(imm, rs2, rs1, f3, opc):
    imm &= 0xfff
    return ((imm >> 5) << 25) | (rs2 << 20) | (rs1 << 15) | (f3 << 12) | ((imm & 0x1f) << 7) | opc


def _b(off, rs2, rs1, f3):
    off &= 0x1fff
    return (((off >> 12) & 1) << 31) | (((off >> 5) & 0x3f) << 25) | (rs2 << 20) | (rs1 << 15) | (f3 << 12) | \
        (((off >> 1) & 0xf) << 8) | (((off >> 11) & 1) << 7) | 0x63


def _j(off, rd):
    off &= 0x1fffff
    return (((off >> 20) & 1) << 31) | (((off >> 1) & 0x3ff) << 21) | (((off >> 11) & 1) << 20) | \
        (((off >> 12) & 0xff) << 12) | (rd << 7) | 0x6f


RV_R = {"add": (0, 0), "sub": (0x20, 0), "sll": (0, 1), "slt": (0, 2), "sltu": (0, 3), "xor": (0, 4), "srl": (0, 5),
        "sra": (0x20, 5), "or": (0, 6), "and": (0, 7)}
RV_I = {"addi": 0, "slti": 2, "sltiu": 3, "xori": 4, "ori": 6, "andi": 7}
RV_SH = {"slli": (0, 1), "srli": (0, 5), "srai": (0x20, 5)}
RV_L = {"lb": 0, "lh": 1, "lw": 2, "lbu": 4, "lhu": 5}
RV_S = {"sb": 0, "sh": 1, "sw": 2}
RV_B = {"beq": 0, "bne": 1, "blt": 4, "bge": 5, "bltu": 6, "bgeu": 7}


def rv32i_encode(ins, addr):
    n = ins[0]
    if n in RV_R:
        f7, f3 = RV_R[n]
        return _r(f7, ins[3], ins[2], f3, ins[1], 0x33)
    if n in RV_I:
        return _i(ins[3], ins[2], RV_I[n], ins[1], 0x13)
    if n in RV_SH:
        f7, f3 = RV_SH[n]
        return _r(f7, ins[3] & 0x1f, ins[2], f3, ins[1], 0x13)
    if n in RV_L:
        return _i(ins[2], ins[3], RV_L[n], ins[1], 0x03)          # (name, rd, imm, rs1)
    if n in RV_S:
        return _s(ins[2], ins[1], ins[3], RV_S[n], 0x23)          # (name, rs2, imm, rs1)
    if n in RV_B:
        return _b(ins[3] - addr, ins[2], ins[1], RV_B[n])         # (name, rs1, rs2, target)
    if n == "lui":
        return ((ins[2] & 0xfffff) << 12) | (ins[1] << 7) | 0x37
    if n == "auipc":
        return ((ins[2] & 0xfffff) << 12) | (ins[1] << 7) | 0x17
    if n == "jal":
        return _j(ins[2] - addr, ins[1])                          # (name, rd, target)
    if n == "jalr":
        return _i(ins[3], ins[2], 0, ins[1], 0x67)                # (name, rd, rs1, imm)
    if n == "fence":
        return 0x0ff0000f
    if n == "ecall":
        return 0x00000073
    if n == "ebreak":
        return 0x00100073
    raise ValueError(ins)


def rv32i_text(ins):
    n = ins[0]
    x = lambda r: "x%d" % r
    if n in RV_R:
        return "%s %s, %s, %s" % (n, x(ins[1]), x(ins[2]), x(ins[3]))
    if n in RV_I or n in RV_SH:
        return "%s %s, %s, %d" % (n, x(ins[1]), x(ins[2]), ins[3])
    if n in RV_L:
        return "%s %s, %d(%s)" % (n, x(ins[1]), ins[2], x(ins[3]))
    if n in RV_S:
        return "%s %s, %d(%s)" % (n, x(ins[1]), ins[2], x(ins[3]))
    if n in RV_B:
        return "%s %s, %s, 0x%x" % (n, x(ins[1]), x(ins[2]), ins[3])
    if n in ("lui", "auipc"):
        return "%s %s, 0x%x" % (n, x(ins[1]), ins[2])
    if n == "jal":
        return "jal %s, 0x%x" % (x(ins[1]), ins[2])
    if n == "jalr":
        return "jalr %s, %s, %d" % (x(ins[1]), x(ins[2]), ins[3])
    return n
