"""C06 Operand values are encoded exactly or rejected, never silently truncated."""
import os, re, random
from nvlib import (Worker, WorkerCrash, WorkerTimeout, Stats, Violation, shard_seed, load_known)
import progs, c02, c07

PROP = "C06"
RULE = ("templates = instruction texts of tests/comparison (47 CPUs, plus hand-written forms) with ONE hole: a numeric "
        "literal (immediate, displacement, address/branch target, bit number) or the digits of a register token. For "
        "each template the sweep S = {0, +-1, +-2^k, +-(2^k +- 1), k<=32} plus, for every accepted v, v +- 2^j (j<=32) "
        "and the same offsets around the instruction's own address (0x10000000, for branch distances) are assembled value by value (sanitized, in-process); non-negative values next to an accept/reject boundary are also spelled as a label defined AFTER the instruction (.org v / label:), (only values whose byte address fits below 2^31, so the label really has that value). Width-agnostic metamorphic oracle: two "
        "accepted values with the same encoding are allowed only if they are the signed/unsigned spellings of one "
        "field value (-2^(w-1) <= v1 < 0, v2 = v1 + 2^w, one w per template and encoding length); any other collision is a silent truncation. "
        "Register holes: different register numbers never share an encoding. non-trivial = template with >=2 accepted "
        "and >=1 rejected value; distinct key = (cpu, mnemonic, hole position)")
ASSUMPTIONS = ["a value and the same value minus 2^32 are one spelling (operands are evaluated in 32 bits, documented in the property's mechanism)",
               "only collisions are judged: a field that is wrong bijectively is C01/C07's business"]

REGTOK = re.compile(r"(?<![A-Za-z0-9_$%.])([a-zA-Z$%]{1,3})([0-9]{1,2})(?![0-9A-Za-z_.])")
ORG = 0x10000000        # byte address; large enough for ORG - 2^27 to stay positive


def sweep_values():
    s = {0, 1, -1}
    for k in range(0, 33):
        for d in (-1, 0, 1):
            s.add((1 << k) + d)
            s.add(-(1 << k) + d)
    return sorted(s)


def shape_key(t, span):
    return c07.NUM.sub("N", t[:span[0]]) + "@" + c07.NUM.sub("N", t[span[1]:])


class Known:
    def __init__(self):
        self.rx = {}
        for f in load_known(PROP):
            m = f.get("match", {})
            if m.get("pred") == "cpu_template_keys":
                for k in m["keys"]:
                    self.rx[(m["cpu"], k)] = f["id"]

    def match(self, cpu, key):
        return self.rx.get((cpu, key))


def check_template(w, s, cpu, directive, unit, t, span, is_reg, quick=False):
    """returns None or a failure dict"""
    org = ORG // unit
    if is_reg:
        vals = list(range(0, 40))
    else:
        sv = sweep_values()
        vals = sv + [org + x for x in sv if abs(x) <= (1 << 27)]
    enc = {}
    fenc = {}
    acc = []
    rej = 0
    tried = set()
    head = ".%s\n.org 0x%x\n" % (directive, org)

    def run_fwd(v):
        """same operand spelled as a label that is defined after the instruction (pass 1 sees a placeholder)"""
        src = head + t[:span[0]] + "c06_fwd" + t[span[1]:] + "\n.org 0x%x\nc06_fwd:\n" % v
        s.evaluations += 1
        s.count("forward_label_spellings")
        try:
            r = w.asm(src)
        except WorkerCrash as e:
            raise Violation(dict(engine="c06", kind="crash", cpu=cpu, template=t[:span[0]] + "@" + t[span[1]:],
                                 what="assembler crashed on a forward-label operand", value=v, detail=e.report[-500:]))
        except WorkerTimeout:
            return
        if r.ok and r.image:
            fenc.setdefault(bytes(r.image[a] for a in sorted(r.image)), []).append(v)

    def run(v):
        if not is_reg and not (-(1 << 31) <= v < (1 << 32)):
            return                                           # the domain is the 2^32 operand values
        if v in tried:
            return
        tried.add(v)
        if is_reg:
            rep = str(v)
        else:
            rep = ("-0x%x" % -v) if v < 0 else "0x%x" % v
        src = head + t[:span[0]] + rep + t[span[1]:] + "\n"
        s.evaluations += 1
        try:
            r = w.asm(src)
        except WorkerCrash as e:
            raise Violation(dict(engine="c06", kind="crash", cpu=cpu, template=t[:span[0]] + "@" + t[span[1]:],
                                 what="assembler crashed on an operand value", value=v, detail=e.report[-500:]))
        except WorkerTimeout:
            return
        nonlocal rej
        if not r.ok or not r.image:
            rej += 1
            return
        b = bytes(r.image[a] for a in sorted(r.image))
        enc.setdefault(b, []).append(v)
        acc.append(v)

    for v in vals:
        run(v)
    if not is_reg:
        for v in list(acc):
            for j in ((4, 8, 12, 16, 24, 32) if quick else (4, 5, 6, 7, 8, 9, 10, 11, 12, 13, 15, 16, 17, 20, 21, 24, 26, 31, 32)):
                run(v + (1 << j))
                run(v - (1 << j))
        for v in sorted(tried):
            if 0 <= v * unit < (1 << 31) and (v in acc or v - 1 in acc or v + 1 in acc or (v & (v - 1)) == 0):
                run_fwd(v)
    s.count("templates_checked")
    if len(acc) >= 2 and rej >= 1:
        s.nt((cpu, t.split()[0].lower(), shape_key(t, span)))
    if len(acc) < 2:
        s.count("templates_vacuous")
        return None
    for table, kind in ((enc, "truncation"), (fenc, "truncation_forward_label")):
        widths = {}
        for b, vs in table.items():
            u = sorted(set(x & 0xffffffff for x in vs))          # v and v - 2^32 are the same 32-bit operand
            if len(u) <= 1:
                continue
            vs = sorted(set(vs))
            if is_reg:
                # register lists are sets: a collision among registers that are all named elsewhere in the
                # statement (mmfm b7, b0, b5 == mmfm b7, b5, b5) is not a truncation
                prefix = re.search(r"([A-Za-z$%]+)$", t[:span[0]])
                others = set(int(x) for x in re.findall(r"(?<![A-Za-z0-9_])%s(\d+)(?![0-9A-Za-z_])" % re.escape(prefix.group(1)),
                                                         t[:span[0] - len(prefix.group(1))] + " " + t[span[1]:])) if prefix else set()
                if sum(1 for x in vs if x not in others) <= 1:
                    continue
                return dict(kind="register_collision", values=vs[:6], bytes=b.hex())
            canon = sorted(set(x if x < (1 << 31) else x - (1 << 32) for x in vs))
            neg = [x for x in canon if x < 0]
            pos = [x for x in canon if x >= 0]
            ok = False
            if len(neg) == 1 and len(pos) == 1:
                dlt = pos[0] - neg[0]
                # signed spelling of a w-bit field: -2^(w-1) <= neg < 0, unsigned spelling neg + 2^w
                if dlt & (dlt - 1) == 0 and -neg[0] <= dlt // 2:
                    widths.setdefault(len(b), set()).add(dlt)
                    ok = True
            if not ok:
                return dict(kind=kind, values=vs[:8], bytes=b.hex())
        for ln, ws in widths.items():
            if len(ws) > 1:
                return dict(kind="inconsistent_field_width", values=sorted(ws)[:6], bytes="")
    return None


def rendering_texts(w, cpu, unit, align):
    """instruction texts the disassembler produces over all leading 16-bit patterns (zero tail, deep bytes
    for byte oriented CPUs) and the assembler accepts: every instruction form the decoder knows, also for the CPUs
    without a comparison file"""
    try:
        r = w.call({"cmd": "c07scan", "cpu": progs.CPU_FILES.get(cpu, cpu), "lo": "0", "hi": "65535", "step": "1", "tails": "1",
                    "stails": "0", "addr": "256", "emit": "2", "deep": "1" if (unit == 1 and align == 1) else "0"})
    except (WorkerCrash, WorkerTimeout):
        return []
    return [t for t in r.get("texts", b"").decode("latin-1").split("\n") if t.strip()]


def templates_of(cpu, extra_texts=None, extra_limit=400):
    seen = set()
    templates = []
    regseen = set()
    universe = [(t, False) for t in (c02.universe(cpu) if cpu in progs.CPU_FILES else [])]
    extras = []
    import hashlib
    # renderings in a fixed pseudo-random order (not by opcode value: prefixed forms such as z80 DD CB .. come last there),
    # so that the limit and the quick tier's stride take an even sample of the forms
    for t in sorted(extra_texts or [], key=lambda x: hashlib.sha1(x.encode("latin-1")).hexdigest()):
        extras.append((t, True))
    for t, from_rendering in universe + extras:
        if from_rendering:
            # one template per (mnemonic, operand shape with registers and numbers abstracted)
            rk = re.sub(r"[A-Za-z$%]+[0-9]+", "R", c07.NUM.sub("N", t))
            if rk in regseen or len(regseen) >= extra_limit:
                continue
            regseen.add(rk)
            for m in c02.NUM.finditer(t):
                span = m.span(1) if m.group(1) else m.span(2)
                k = shape_key(t, span)
                if k not in seen:
                    seen.add(k)
                    templates.append((t, span, False, k))
            continue
        for m in c02.NUM.finditer(t):
            span = m.span(1) if m.group(1) else m.span(2)
            # a unary minus in front of the literal belongs to the operand value
            j = span[0]
            while j > 0 and t[j - 1] == " ":
                j -= 1
            if j > 0 and t[j - 1] == "-" and (j == 1 or t[j - 2] in " ,#(=[:+*"):
                span = (j - 1, span[1])
            k = shape_key(t, span)
            if k not in seen:
                seen.add(k)
                templates.append((t, span, False, k))
        for m in REGTOK.finditer(t):
            if re.search(r"[{}]|\.\.|[A-Za-z][0-9]+\s*[-/]\s*[A-Za-z]+[0-9]", t):
                continue                             # register lists/ranges are sets: d5/d5 == d5
            k = "reg:" + shape_key(t, m.span(2))
            if k not in seen:
                seen.add(k)
                templates.append((t, m.span(2), True, k))
    return templates


def _old_templates_of(cpu):
    seen = set()
    templates = []
    for t in c02.universe(cpu):
        for m in c02.NUM.finditer(t):
            span = m.span(1) if m.group(1) else m.span(2)
            # a unary minus in front of the literal belongs to the operand value
            j = span[0]
            while j > 0 and t[j - 1] == " ":
                j -= 1
            if j > 0 and t[j - 1] == "-" and (j == 1 or t[j - 2] in " ,#(=[:+*"):
                span = (j - 1, span[1])
            k = shape_key(t, span)
            if k not in seen:
                seen.add(k)
                templates.append((t, span, False, k))
        for m in REGTOK.finditer(t):
            if re.search(r"[{}]|\.\.|[A-Za-z][0-9]+\s*[-/]\s*[A-Za-z]+[0-9]", t):
                continue                             # register lists/ranges are sets: d5/d5 == d5
            k = "reg:" + shape_key(t, m.span(2))
            if k not in seen:
                seen.add(k)
                templates.append((t, m.span(2), True, k))
    return templates


def run(tier, seed, shard, nshards):
    s = Stats()
    w = Worker("c06", timeout=120)
    known = Known()
    survey = os.environ.get("NV_SURVEY") == "1"
    rnd = random.Random(shard_seed(seed, shard, "c06"))
    try:
        info = {c["name"]: c for c in w.cpus()}
        units = {n: c["unit"] for n, c in info.items()}
        # every CPU: the ones with a comparison file by their file name, the others by their directive name
        rev = {v: k for k, v in progs.CPU_FILES.items()}
        allc = list(c02.CPUS) + sorted(n for n in info if n not in progs.CPU_FILES.values() and n not in c02.CPUS
                                       and rev.get(n) is None and n not in ("ps2_ee_vu0", "ps2_ee_vu1"))
        cpus = [c for i, c in enumerate(allc) if i % nshards == shard]
        if os.environ.get("NV_C06_CPUS"):                  # development aid
            cpus = [c for c in cpus if c in os.environ["NV_C06_CPUS"].split(",")]
        for cpu in cpus:
            directive = progs.CPU_FILES.get(cpu, cpu)
            unit = units.get(directive, 1)
            ci = info.get(directive, dict(unit=1, align=1))
            import time as _t
            t_cpu = _t.time()
            texts = rendering_texts(w, cpu, ci["unit"], ci["align"])
            corp = templates_of(cpu)
            rend = templates_of(cpu, texts)[len(corp):]
            s.count("templates.from_renderings", len(rend))
            s.count("templates.from_corpus", len(corp))
            if tier == "quick":
                rend = rend[::24]                      # subset of the thorough tier's list
                if len(corp) > 30:
                    # one-operand forms first (branches, jumps, calls, pushes: the hole is the whole operand list), then a
                    # deterministic spread over the rest and a seeded extra sample
                    single = [x for x in corp if not x[2] and "," not in x[0]]
                    single = single[::max(1, len(single) // 12)][:12]
                    rest = [x for x in corp if x not in single]
                    base = rest[::max(1, len(rest) // 12)][:12]
                    extra = rnd.sample(rest, min(6, len(rest)))
                    corp = single + base + [x for x in extra if x not in base]
            templates = corp + rend
            for t, span, is_reg, key in templates:
                try:
                    res = check_template(w, s, cpu, directive, unit, t, span, is_reg, quick=(tier == "quick"))
                except Violation as v:
                    if survey:
                        s.notes.append("SURVEY\t%s\t%s\tcrash\t%s" % (cpu, key, str(v.payload.get("detail"))[-150:]))
                        continue
                    fid = known.match(cpu, key)
                    if fid:
                        s.known_hits.setdefault(fid, dict(cpu=cpu, key=key))
                        s.excluded_known += 1
                        continue
                    s.violations.append(dict(v.payload, key=key, text=t, span=list(span), is_reg=is_reg))
                    continue
                if res is None:
                    continue
                if survey:
                    s.notes.append("SURVEY\t%s\t%s\t%s\t%s" % (cpu, key, res["kind"], res["values"]))
                    continue
                fid = known.match(cpu, key)
                if fid:
                    s.known_hits.setdefault(fid, dict(cpu=cpu, key=key, values=res["values"]))
                    s.excluded_known += 1
                    continue
                s.violations.append(dict(engine="c06", cpu=cpu, key=key, text=t, span=list(span), is_reg=is_reg,
                                         kind=res["kind"], values=res["values"], bytes=res["bytes"],
                                         what={"truncation": "two different operand values were both accepted and encoded "
                                                             "identically (silent truncation/masking)",
                                               "truncation_forward_label": "two different values of a forward-referenced "
                                                                           "label were both accepted and encoded identically",
                                               "register_collision": "two different register numbers share an encoding",
                                               "inconsistent_field_width": "signed/unsigned aliases with different widths "
                                                                           "in one field"}[res["kind"]]))
            s.count("seconds.%s" % cpu, int(_t.time() - t_cpu))
            if len(s.samples) < 3 and templates:
                t, span, is_reg, key = templates[0]
                s.sample(dict(cpu=cpu, template=t[:span[0]] + "@" + t[span[1]:], register_hole=is_reg))
    finally:
        w.close()
    return s


def replay(payload):
    w = Worker("c06r", timeout=120)
    s = Stats()
    try:
        units = {c["name"]: c["unit"] for c in w.cpus()}
        cpu = payload["cpu"]
        directive = progs.CPU_FILES.get(cpu, cpu)
        if "text" not in payload:
            # known-finding examples carry (cpu, key): find the template again
            found = None
            ci_ = {c["name"]: c for c in w.cpus()}.get(directive, dict(unit=1, align=1))
            for t, span, is_reg, key in templates_of(cpu, rendering_texts(w, cpu, ci_["unit"], ci_["align"])):
                if key == payload["key"]:
                    found = (t, span, is_reg)
                    break
            if found is None:
                return False, "template no longer exists"
            payload = dict(payload, text=found[0], span=list(found[1]), is_reg=found[2], kind=payload.get("kind", "truncation"))
        try:
            res = check_template(w, s, cpu, directive, units.get(directive, 1), payload["text"], tuple(payload["span"]),
                                 payload["is_reg"])
        except Violation as v:
            return payload["kind"] == "crash", v.payload
        return res is not None, res or "passes"
    finally:
        w.close()
