"""C17, structured part: generated naken_util command lines + scripted sessions through the sanitized CLI.

The libFuzzer targets cut an iteration after 4 MB of output ("requested output"), which also hides a loop that prints
for ever.  Here the generator knows how much every command asks for (ranges span <= 600 address units), so the oracle
can demand: the process ends by itself (quit / option error), exit status 0 or 1, no sanitizer report, no signal, and
output bounded by what was requested."""
import os, shutil, re, subprocess, threading
from hypothesis import strategies as st
from nvlib import Stats, Violation, run_cli, new_scratch, hyp_run, shard_seed, load_known

EDGE = [0, 1, 2, 0x7f, 0x80, 0xff, 0x100, 0xfffe, 0xffff, 0x10000, 0x10001, 0xfffff0, 0xffffff, 0x1000000,
        0x7ffffffe, 0x7fffffff, 0x80000000, 0xffff0000, 0xfffffff0, 0xfffffffc, 0xfffffffe, 0xffffffff]
CPUS_COMMON = ["msp430", "6502", "z80", "68000", "avr8", "mips", "arm", "8051", "stm8", "65816", "riscv", "tms9900",
               "propeller", "ebpf", "lc3", "1802", "8008", "f100_l", "pic14", "thumb"]
REGS = ["pc", "sp", "r0", "r1", "r5", "r15", "r16", "r31", "r32", "a", "x", "y", "hl", "bc", "ix", "d0", "a7", "sr", "c", "z",
        "n", "v", "psw", "acc", "w", "foo", "r99", "abcdefghijklmnop", ""]


NUMTOK = re.compile(r"(?i)(?<![0-9a-z_])(0x[0-9a-f]+|[0-9][0-9a-f]*h|[0-9]+)(?![0-9a-z_])")
TOP_LIMIT = 0xffffff00 // 8          # any CPU: value * bytes_per_address (<= 8) stays below the top 256 bytes


def has_top(text):
    """does the text name an address that (scaled by up to 8 bytes per address) reaches the top 256 bytes?"""
    for m in NUMTOK.finditer(text):
        t = m.group(1).lower()
        try:
            v = int(t[2:], 16) if t.startswith("0x") else (int(t[:-1], 16) if t.endswith("h") else int(t))
        except ValueError:
            continue
        if (v & 0xffffffff) >= TOP_LIMIT:
            return True
    return False


class _Top:
    def search(self, t):
        return has_top(t)


TOP = _Top()
TEN = list(range(10))


def pct(draw, tenths):
    """true with probability tenths/10 (st.integers is biased towards its bounds)"""
    return draw(st.sampled_from(TEN)) < tenths


@st.composite
def number(draw):
    v = draw(st.one_of(st.sampled_from(EDGE), st.integers(0, 0x300), st.integers(0, 0xffffffff)))
    d = draw(st.integers(-3, 3))
    v = (v + d) & 0xffffffff
    return v


def spell(draw, v, neg=False):
    k = draw(st.sampled_from(["dec", "hex", "hex", "h"] + (["neg"] if neg else [])))
    if k == "dec":
        return str(v)
    if k == "hex":
        return "0x%x" % v
    if k == "h":
        h = "%x" % v
        return (h if h[0].isdigit() else "0" + h) + "h"
    return "-%d" % ((-v) & 0xffffffff) if v > 0x7fffffff else str(v)


@st.composite
def rng(draw):
    """(text, span): a range argument whose span is known"""
    a = draw(number())
    form = draw(st.sampled_from(["a-b", "a-b", "a-b", "a", "a-", "-b", "b-a", "sym", "junk"]))
    span = draw(st.sampled_from([0, 1, 2, 3, 4, 15, 16, 17, 64, 128, 200, 600]))
    if a + span > 0xffffffff:
        a -= span                            # a-b never wraps: b-a spelled backwards would ask for 4 GiB
    b = a + span
    sa, sb = spell(draw, a), spell(draw, b)
    if form == "a-b":
        sep = draw(st.sampled_from(["-", " - ", "- ", " -"]))
        return sa + sep + sb, max(span, 128)
    if form == "a":
        return sa, 128
    if form == "a-":
        # "to the end of the loaded code": the span is high_address - a, which only the session knows; keep a above
        # every image this generator loads so that the request stays small
        a = 0xffffff00 + (a & 0x7f)
        return spell(draw, a) + "-", 256
    if form == "-b":
        return "-" + sb, min(b, 0x20000) if b < 0x20000 else None
    if form == "b-a":
        return sb + "-" + sa, 128
    if form == "sym":
        return draw(st.sampled_from(["main", "start", "nosuchsymbol", "r5"])), 128
    return draw(st.sampled_from(["0x", "h", "1-2-3", "1 2", "0x10-0xg", "", "999999999999999999999", "-0x10--0x20"])), 128


@st.composite
def command(draw):
    """(text lines, requested span or None if unbounded -> such commands are not generated)"""
    k = draw(st.sampled_from(["print", "print16", "print32", "disasm", "dumpram", "dump_ram", "write", "write16", "write32",
                              "set", "clear", "push", "break", "step", "run", "call", "registers", "reg", "reset", "info",
                              "symbols", "display", "no_clear", "help", "stop", "speed", "asm", "junk", "empty"]))
    if k in ("print", "print16", "print32", "disasm", "dumpram", "dump_ram"):
        r, span = draw(rng())
        if span is None:
            r, span = "0x10-0x20", 128
        if k == "disasm" and TOP.search(r):
            # known finding C17-disasm-range-top (range loops of every disasm_range_<cpu> wrap at 0xffffffff):
            # excluded by construction
            return ["disasm 0x10-0x20"], 128, 1
        if pct(draw, 1):
            return [k], 0x20000
        return ["%s %s" % (k, r)], span
    if k in ("write", "write16", "write32"):
        a = draw(number())
        vals = [spell(draw, draw(number()), True) for _ in range(draw(st.integers(0, 5)))]
        return ["%s %s %s" % (k, spell(draw, a), " ".join(vals))], 0
    if k == "set":
        return ["set %s%s%s" % (draw(st.sampled_from(REGS)), draw(st.sampled_from(["=", " = ", "", " "])),
                                spell(draw, draw(number())))], 0
    if k == "clear":
        return ["clear %s" % draw(st.sampled_from(REGS))], 0
    if k in ("push", "break", "call"):
        arg = draw(st.sampled_from(["num", "none", "junk"]))
        t = k + (" " + spell(draw, draw(number())) if arg == "num" else (" zz9" if arg == "junk" else ""))
        return [t], 0
    if k == "speed":
        return ["speed 0"], 0
    if k == "asm":
        lines = ["asm %s" % spell(draw, draw(number()))]
        for _ in range(draw(st.integers(0, 3))):
            lines.append(draw(st.sampled_from(["  .db 1, 2, 3", "  .dc16 0x1234", "  nop", "  .dc32 5", "  junk junk", "  .org 0x10",
                                               "  .db \"abc\"", "lab:", "  .align 16"])))
        lines.append("")
        return lines, 0
    if k == "junk":
        return [draw(st.sampled_from(["?", "prin", "print16print", "x" * 300, "write", "set", "set =", "set pc", "= 5", "\t",
                                      "print 1 2 3 4", "write 0", "write16", "asm asm", "step 5", "run 5", "help me"]))], 128
    if k == "empty":
        return [""], 0
    return [k], 0


@st.composite
def session(draw):
    cpu = draw(st.one_of(st.sampled_from(CPUS_COMMON), st.sampled_from(ALL_CPUS or CPUS_COMMON)))
    args = []
    file_kind = draw(st.sampled_from(["none", "none", "none", "bin", "hex", "bin", "hex", "hex", "bin", "hex", "empty", "missing"]))
    data = draw(st.binary(min_size=1, max_size=300))
    base = draw(st.sampled_from([0, 0x100, 0xfff0, 0xffff, 0x10000, 0xffff00, 0x7ffffff0, 0xffffff00]))
    opts = ["cpu"] if pct(draw, 8) else []
    opts += draw(st.lists(st.sampled_from(["bin", "address", "set_pc", "break_io", "disasm", "disasm_range", "dup_cpu"]),
                          max_size=3, unique=True))
    if file_kind == "bin" and "bin" not in opts and pct(draw, 8):
        opts.append("bin")
    if pct(draw, 2):
        opts.append(draw(st.sampled_from(["unknown", "address_noarg", "set_pc_noarg", "break_io_noarg", "disasm_range_noarg",
                                          "sim_serial_short"])))
    if file_kind in ("none", "empty", "missing"):
        opts = [o for o in opts if o not in ("disasm", "disasm_range")] if pct(draw, 8) else opts
    mode_disasm = False
    tail_noarg = None
    for o in opts:
        if o in ("cpu", "dup_cpu"):
            args.append("-" + cpu)
        elif o == "bin":
            args.append("-bin")
        elif o == "address":
            args += ["-address", spell(draw, draw(number()))]
        elif o == "set_pc":
            args += ["-set_pc", spell(draw, draw(number()))]
        elif o == "break_io":
            args += ["-break_io", spell(draw, draw(number()))]
        elif o == "disasm":
            args.append("-disasm")
            mode_disasm = True
        elif o == "disasm_range":
            r, span = draw(rng())
            if span is not None and span <= 0x20000 and r.strip() and not TOP.search(r):
                args += ["-disasm_range", r]
                mode_disasm = True
        elif o == "unknown":
            args.append(draw(st.sampled_from(["-nosuchoption", "-", "--help", "-run_", "-BIN"])))
        elif o.endswith("_noarg"):
            tail_noarg = "-" + o[:-6]
        elif o == "sim_serial_short":
            tail_noarg = "-sim_serial"
    fname = None
    if file_kind in ("bin", "hex", "empty"):
        fname = {"bin": "img.bin", "hex": "img.hex", "empty": "empty.hex"}[file_kind]
    elif file_kind == "missing":
        fname = "does_not_exist.hex"
    if fname:
        args.append(fname)
    if tail_noarg:
        args.append(tail_noarg)          # an option that needs an argument, as the last word of the command line
    cmds = []
    total = 0
    excluded = 0
    # images stay below 0xffffffe0 (wrapping images are rejected by the loader; an image that reaches the top runs into
    # the known finding C17-disasm-range-top in -disasm mode)
    room = 0xffffffe0 - base
    if len(data) > room:
        data = data[:room]
    for _ in range(draw(st.integers(0, 10))):
        got = draw(command())
        lines, span = got[0], got[1]
        excluded += got[2] if len(got) > 2 else 0
        cmds.extend(lines)
        total += span
    # known finding C17-disasm-range-top: a session that touches the top of the address space (an option value, a
    # write, an image base) does not use whole-image or open-ended disassembly
    if base >= TOP_LIMIT or any(has_top(x) for x in args + cmds):
        keep = []
        i = 0
        while i < len(args):
            if args[i] == "-disasm":
                excluded += 1
                mode_disasm = False
            elif args[i] == "-disasm_range" and i + 1 < len(args):
                excluded += 1
                mode_disasm = False
                i += 1
            else:
                keep.append(args[i])
            i += 1
        args = keep
        n0 = len(cmds)
        cmds = [c for c in cmds if not c.startswith("disasm")]
        excluded += n0 - len(cmds)
    return dict(cpu=cpu, args=args, file_kind=file_kind, data=data.hex(), base=base, cmds=cmds, span=total,
                disasm=mode_disasm, excluded=excluded)


ALL_CPUS = []


def hex_image(base, data):
    import c08
    return c08.hex_file([(base & 0xffffffff, data)])


def run_capped(args, cwd, stdin, timeout, cap):
    """like nvlib.run_cli, but stops reading (and kills the process) after `cap` bytes of stdout: a loop that prints
    for ever must not exhaust memory here.  returns (rc, out, err, timed_out, overflow)"""
    from nvlib import build_dir, san_env
    exe = os.path.join(build_dir(), "naken_util_san")
    errf = open(os.path.join(cwd, "stderr.txt"), "wb")
    p = subprocess.Popen([exe] + list(args), cwd=cwd, stdin=subprocess.PIPE, stdout=subprocess.PIPE, stderr=errf, env=san_env())
    chunks = []
    state = dict(n=0, over=False)

    def reader():
        while True:
            b = p.stdout.read(65536)
            if not b:
                return
            state["n"] += len(b)
            if state["n"] <= cap + 65536:
                chunks.append(b)
            else:
                state["over"] = True
                try:
                    p.kill()
                except OSError:
                    pass
                return

    def writer():
        try:
            p.stdin.write(stdin)
            p.stdin.close()
        except (BrokenPipeError, OSError):
            pass

    t1 = threading.Thread(target=reader)
    t2 = threading.Thread(target=writer)
    t1.start()
    t2.start()
    to = False
    try:
        p.wait(timeout=timeout)
    except subprocess.TimeoutExpired:
        to = True
        p.kill()
        p.wait()
    t1.join(10)
    t2.join(10)
    errf.close()
    err = open(os.path.join(cwd, "stderr.txt"), "rb").read()[-200000:].decode("latin-1")
    return (None if to else p.returncode), b"".join(chunks).decode("latin-1"), err, to, state["over"]


LAST = {}


def run_session(case, timeout=40, cap=None):
    d = new_scratch("c17s")
    try:
        data = bytes.fromhex(case["data"])
        with open(os.path.join(d, "img.bin"), "wb") as f:
            f.write(data)
        with open(os.path.join(d, "img.hex"), "w") as f:
            f.write(hex_image(case["base"], data))
        open(os.path.join(d, "empty.hex"), "w").close()
        script = "speed 0\n" + "".join(c + "\n" for c in case["cmds"]) + "\nquit\nquit\n"
        rc, out, err, to, over = run_capped(case["args"], d, script.encode("latin-1"), timeout, cap or budget(case))
        if over:
            out = out[:1 << 16] + "\n[output cap exceeded]\n" + out[-(1 << 12):]
            rc = 0 if rc is None or rc < 0 else rc
            to = False
        LAST["over"] = over
        LAST["bytes"] = len(out) if not over else (cap or budget(case)) + 1
        return rc, out, err, to
    finally:
        shutil.rmtree(d, ignore_errors=True)


def budget(case):
    # every print/disasm row is < 120 characters per 1..16 units; banner + help + register dumps per command < 4 KiB
    return 65536 + 4096 * (len(case["cmds"]) + 2) + 200 * (case["span"] + (0x20000 if case["disasm"] else 0))


def judge(case, rc, out, err, to):
    """None or (kind, what, observed)"""
    if to:
        return ("hang", "naken_util did not terminate (script ends with quit)", out[-300:])
    if "ERROR: AddressSanitizer" in err or "runtime error:" in err or rc == 86:
        import re
        m = re.search(r"(ERROR: AddressSanitizer: \S+|runtime error: [^\n]*)", err)
        site = re.search(r"#\d+ 0x[0-9a-f]+ in (\S+) [^\n]*?/(\w+/[\w.]+):\d+", err)
        return ("sanitizer", "sanitizer report", (m.group(0) if m else "") + " in " + (site.group(1) + " " + site.group(2) if site else "?")
                + " | " + err[-600:])
    if rc is None or rc < 0:
        return ("signal", "naken_util died from a signal (%s)" % rc, err[-300:])
    if rc not in (0, 1) and "-break_io" not in case["args"]:
        return ("status", "exit status %s" % rc, out[-300:])
    if LAST.get("over") or len(out) > budget(case):
        return ("output", "more than %d bytes of output for commands that ask for about %d address units" % (budget(case), case["span"]),
                out[:200] + " ... " + out[-200:])
    return None


def site_of(observed):
    import re
    m = re.search(r" in (\S+ \S+) \|", observed or "")
    return m.group(1) if m else ""


def part(s, tier, seed, shard):
    global ALL_CPUS
    if not ALL_CPUS:
        rc, out, err, to = run_cli("naken_util_san", [], "/tmp", timeout=30)
        # the usage text lists the CPU options
        import re
        ALL_CPUS = sorted(set(re.findall(r"(?m)^\s+-([a-z0-9_]+)\s", out)) - set(["disasm", "disasm_range", "address", "set_pc",
                                                                                   "break_io", "bin", "run", "sim_serial"]))
    known = [f for f in load_known("C17") if f.get("match", {}).get("pred") == "session_site"]

    def test(case):
        s.evaluations += 1
        rc, out, err, to = run_session(case)
        s.count("sessions")
        if case.get("excluded"):
            s.excluded_known += case["excluded"]
        s.count("sessions.file=" + case["file_kind"])
        if case["disasm"]:
            s.count("sessions.disasm_mode")
        if rc == 1:
            s.count("sessions.exit1")
        if any(a.startswith("-") and a[1:] not in ALL_CPUS for a in case["args"]):
            s.count("sessions.with_options")
        s.nt(("session", case["cpu"], tuple(sorted(set(c.split(" ")[0] for c in case["cmds"])))[:6], tuple(a for a in case["args"] if a.startswith("-"))[:3]))
        if len(s.samples) < 4 and len(case["cmds"]) > 3:
            s.sample(dict(part="session", args=case["args"], cmds=case["cmds"][:8]))
        v = judge(case, rc, out, err, to)
        if v is None:
            return
        kind, what, obs = v
        if kind == "output":
            # more output than the request explains: a defect of this property only if it does not end.  Re-run with
            # room for 500 bytes per requested unit and at least 64 MB
            rc2, out2, err2, to2 = run_session(case, timeout=180, cap=max(64 << 20, 500 * case["span"]))
            if not to2 and not LAST.get("over") and rc2 in (0, 1) and "ERROR: AddressSanitizer" not in err2:
                s.count("sessions.more_output_than_requested_but_terminates")
                return
            what = "output without end: " + what
        if kind == "hang":
            rc2, out2, err2, to2 = run_session(case, timeout=120)
            v2 = judge(case, rc2, out2, err2, to2)
            if v2 is None:
                s.inconclusive += 1
                return
            kind, what, obs = v2
        for f in known:
            m = f["match"]
            if m.get("kind") == kind and m.get("site", "") in (obs or ""):
                s.known_hits.setdefault(f["id"], dict(args=case["args"], cmds=case["cmds"]))
                s.excluded_known += 1
                return
        raise Violation(dict(engine="c17s", kind="session_" + kind, what=what, observed=obs, **case))

    hyp_run(test, session(), 150 if tier == "quick" else 700, shard_seed(seed, shard, "c17s"), s)


def replay(payload):
    case = {k: payload[k] for k in ("cpu", "args", "file_kind", "data", "base", "cmds", "span", "disasm")}
    case["excluded"] = 0
    rc, out, err, to = run_session(case, timeout=120)
    v = judge(case, rc, out, err, to)
    if v is not None and v[0] == "output":
        rc2, out2, err2, to2 = run_session(case, timeout=180, cap=max(64 << 20, 500 * case["span"]))
        if not to2 and not LAST.get("over") and rc2 in (0, 1):
            return False, "more output than requested, but it terminates"
    return (v is not None), (v or "passes")
