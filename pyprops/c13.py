"""C13 Assembly is a deterministic function of the source alone."""
import os, re, shutil
from hypothesis import strategies as st
from hypothesis.stateful import RuleBasedStateMachine, rule, initialize, precondition

from nvlib import (Worker, WorkerCrash, WorkerTimeout, Stats, Violation, hyp_run, shard_seed, load_known, run_cli,
                   new_scratch)
import progs, formats
import c03

PROP = "C13"
RULE = ("(a) Hypothesis structured programs (20 CPUs; macros, conditionals, repeats, includes, forward references) run "
        "through the sanitized CLI under 4..6 configurations: random subsets of {-l,-q,-dump_symbols,-dump_macros}, "
        "random output type and output file name; all decoded images must be identical, and two runs with identical "
        "options byte-identical (S0 timestamp masked). (b) in-process histories: one long-lived worker assembles a "
        "generated sequence of programs (with repeats, with/without listing, failing programs in between); every "
        "result (image, symbols, diagnostics) must equal the result of a fresh process for that program. (c) "
        "naken_util sessions with several 'asm' blocks: memory shown by print must equal the fresh assembly of each "
        "block at its origin. non-trivial = program with forward references/macros compared under two option sets "
        "that differ in -l, or a history in which the same program is assembled after a different one; distinct key "
        "= (option pair, cpu) / (history shape)")
ASSUMPTIONS = ["the ELF output embeds the input file name, so the input name is held constant",
               "bin/elf/uf2 are compared on the addresses of the hex image (containers add zero padding)"]

OPTS = ["-l", "-q", "-dump_symbols", "-dump_macros"]
TYPES = ["hex", "srec", "bin", "elf", "wdc", "uf2"]


def decode(typ, data, ref_img):
    """image carried by a file of type typ restricted to comparable addresses"""
    if typ == "hex":
        return formats.read_hex(data)[0]
    if typ == "srec":
        return c03.read_srec_lenient(data)[0]
    if typ == "wdc":
        return c03.read_wdc_lenient(data)[0]
    if typ == "uf2":
        got = c03.read_uf2_program(data)[0]
        return {a: b for a, b in got.items() if a in ref_img}
    if typ == "elf":
        elf = formats.read_elf(data)
        t = [s for s in elf["sections"] if s.get("name") == ".text"][0]
        got = {t["addr"] + i: b for i, b in enumerate(t["data"])}
        return {a: b for a, b in got.items() if a in ref_img}
    if typ == "bin":
        low = min(ref_img) if ref_img else 0
        got = {low + i: b for i, b in enumerate(data)}
        return {a: b for a, b in got.items() if a in ref_img}
    raise ValueError(typ)


def mask_srec(data):
    return re.sub(rb"^S0[0-9A-F]+\r?\n", b"S0<masked>\n", data)


class CliChecker:
    def __init__(self, stats):
        self.s = stats
        self.dir = new_scratch("c13cli")

    def close(self):
        shutil.rmtree(self.dir, ignore_errors=True)

    def run(self, p, typ, opts, outname):
        d = self.dir
        for fn in os.listdir(d):
            pth = os.path.join(d, fn)
            if os.path.isfile(pth):
                os.unlink(pth)
        with open(os.path.join(d, "prog.asm"), "w", encoding="latin-1") as f:
            f.write(p.source())
        for n, t in p.files:
            with open(os.path.join(d, n), "w", encoding="latin-1") as f:
                f.write(t)
        rc, out, err, to = run_cli("naken_asm_san", ["-type", typ, "-o", outname] + list(opts) + ["prog.asm"], d,
                                   timeout=60)
        if to:
            return None
        path = os.path.join(d, outname)
        data = open(path, "rb").read() if os.path.exists(path) else None
        return rc, out, err, data

    def check(self, p, configs):
        """configs: list of (typ, opts tuple, outname); first one is the reference (hex, no options)"""
        base = dict(src=p.source(), files=p.files, cpu=p.cpu, engine="c13", mode="cli",
                    configs=[(t, list(o), n) for t, o, n in configs])
        ref = self.run(p, *configs[0])
        if ref is None:
            self.s.inconclusive += 1
            return "timeout"
        if ref[0] not in (0, 1):
            raise Violation(dict(base, what="CLI ended with status %s" % ref[0], kind="bad_status",
                                 observed=ref[2][-1200:]))
        if ref[0] != 0:
            # invalid program: every configuration must reject it too
            for cfg in configs[1:]:
                r = self.run(p, *cfg)
                if r is not None and r[0] == 0:
                    raise Violation(dict(base, what="program rejected without options but accepted with %s" % (cfg,),
                                         kind="accept_differs", observed=dict(ref_out=ref[1][-300:])))
            return "invalid"
        ref_img = formats.read_hex(ref[3])[0]
        seen = {}
        for cfg in configs[1:]:
            r = self.run(p, *cfg)
            if r is None:
                self.s.inconclusive += 1
                continue
            if r[0] != 0 or r[3] is None:
                raise Violation(dict(base, what="program accepted without options but rejected/without file under %s"
                                                % (cfg,), kind="accept_differs",
                                     observed=dict(rc=r[0], out=r[1][-400:], err=r[2][-600:])))
            try:
                img = decode(cfg[0], r[3], ref_img)
            except (formats.FormatError, IndexError) as e:
                raise Violation(dict(base, what="output under %s is malformed" % (cfg,), kind="malformed",
                                     observed=str(e)))
            want = ref_img if cfg[0] in ("hex", "srec", "wdc") else {a: b for a, b in ref_img.items() if a in img or True}
            if img != want:
                diff = [(hex(a), ref_img.get(a), img.get(a)) for a in sorted(set(ref_img) | set(img))
                        if ref_img.get(a) != img.get(a)][:6]
                raise Violation(dict(base, what="image depends on the options/type: %s (addr, reference, this run)"
                                                % (cfg,), kind="image_differs", observed=diff))
            key = (cfg[0], tuple(sorted(cfg[1])))
            blob = mask_srec(r[3]) if cfg[0] == "srec" else r[3]
            if key in seen and seen[key] != blob:
                raise Violation(dict(base, what="two runs with identical options produced different files: %s" % (cfg,),
                                     kind="not_deterministic", observed=dict(len1=len(seen[key]), len2=len(blob))))
            seen[key] = blob
        return "ok"


@st.composite
def cli_case(draw, pools):
    p = draw(progs.structured_program(pools, align_data=None))
    cfgs = [("hex", (), "ref.hex")]
    n = draw(st.integers(3, 5))
    for i in range(n):
        typ = draw(st.sampled_from(TYPES))
        opts = tuple(o for o in OPTS if draw(st.booleans()))
        name = draw(st.sampled_from(["out.%s" % typ, "b_%d.%s" % (i, typ), "x.%s" % typ]))
        if typ == "wdc":
            name = name
        cfgs.append((typ, opts, name))
    # one exact repetition (identical options twice)
    cfgs.append(cfgs[draw(st.integers(1, len(cfgs) - 1))])
    return p, cfgs


# ------------------------------------------------------------- in-process
def snapshot(r):
    if isinstance(r, WorkerCrash):
        return ("crash", r.report[-300:])
    if isinstance(r, WorkerTimeout):
        return ("timeout",)
    diag = tuple(l for l in r.out.split("\n") if "Error" in l or "rror:" in l)
    return (r.phase, tuple(sorted(r.image.items())), tuple(sorted(r.symdict(2).items())), diag)


def asm_once(worker, p, listing):
    for n, t in p.files:
        worker.write_file(n, t)
    try:
        return worker.asm(p.source(), flags="F" + ("L" if listing else ""))
    except (WorkerCrash, WorkerTimeout) as c:
        return c


def fresh_result(p, listing):
    w = Worker("c13f")
    try:
        return snapshot(asm_once(w, p, listing))
    finally:
        w.close()


def run(tier, seed, shard, nshards):
    s = Stats()
    w = Worker("c13")
    pools = progs.make_pools(w, progs.GEN_CPUS)
    cli = CliChecker(s)

    def test_cli(c):
        p, cfgs = c
        s.evaluations += 1
        res = cli.check(p, cfgs)
        s.count("cli." + res)
        if res != "ok":
            return
        s.count("cpu." + p.cpu)
        has_l = set("-l" in o for t, o, n in cfgs[1:])
        interesting = any(x in ("macrodef", "includedir", "repeatdir", "ifdir") for x in p.ctx) or \
            any("lbl_end" in l and ".dc32" in l for l in p.lines)
        if len(has_l) == 2 and interesting:
            s.nt(("cli", p.cpu, tuple(sorted(set((t, o) for t, o, n in cfgs[1:])))[:3]))
            s.count("class.cli_nontrivial")
            if len(s.samples) < 3:
                s.sample(dict(mode="cli", cpu=p.cpu, configs=[(t, list(o)) for t, o, n in cfgs], src=p.source()[:500]))

    def test_history(c):
        progs_list, seq = c
        s.evaluations += 1
        hw = Worker("c13h")
        cache = {}
        try:
            prev = None
            for step, (i, listing) in enumerate(seq):
                p = progs_list[i]
                got = snapshot(asm_once(hw, p, listing))
                key = (i, listing)
                if key not in cache:
                    cache[key] = fresh_result(p, listing)
                if got != cache[key]:
                    what = "result of assembly number %d in one process differs from a fresh process" % (step + 1)
                    raise Violation(dict(what=what, kind="history_differs", engine="c13", mode="history",
                                         programs=[(q.source(), q.files) for q in progs_list],
                                         sequence=[(a, b) for a, b in seq], step=step,
                                         observed=dict(in_history=repr(got)[:400], fresh=repr(cache[key])[:400])))
                if got[0] == "crash":
                    hw.stop()
                if prev is not None and prev != i and any(j == i for j, _ in seq[:step]):
                    s.count("class.history_repeat_after_other")
                    s.nt(("hist", tuple(x for x, _ in seq)))
                prev = i
        finally:
            hw.close()

    def test_listing(p):
        # listing on/off must not change what is assembled (in-process, same worker)
        s.evaluations += 1
        a = snapshot(asm_once(w, p, False))
        b = snapshot(asm_once(w, p, True))
        s.count("listing_pairs")
        if a != b:
            raise Violation(dict(what="image/symbols/diagnostics differ with the listing enabled", kind="listing_differs",
                                 engine="c13", mode="listing", src=p.source(), files=p.files,
                                 observed=dict(without=repr(a)[:300], with_listing=repr(b)[:300])))

    def test_util_asm(c):
        cpu, bpa, blocks = c
        s.evaluations += 1
        # expected: each block assembled by a fresh AsmContext at its origin (what assemble_code() documents)
        mem = {}
        org = 0
        script = []
        for explicit, lines in blocks:
            if explicit is not None:
                org = explicit
            src = "\n".join(lines) + "\n"
            try:
                r = w.asm(src, flags="U", cpu=cpu, org=str(org))
            except (WorkerCrash, WorkerTimeout):
                s.count("util_asm.block_crash")
                return
            if not r.ok or not r.image:
                s.count("util_asm.block_invalid")
                return
            mem.update(r.image)
            script.append("asm" if explicit is None else "asm 0x%x" % explicit)
            script.extend(lines)
            script.append("")
            org = (max(r.image) + 1)          # naken_util continues after the last byte
            if bpa != 1:
                org = None
        lo, hi = min(mem), max(mem) + 1
        lo -= lo % (16 * bpa)
        script.append("print 0x%x-0x%x" % (lo // bpa, (hi + bpa - 1) // bpa))
        script.append("quit")
        d = cli.dir
        rc, out, err, to = run_cli("naken_util_san", ["-" + cpu], d, stdin=("\n".join(script) + "\n").encode(),
                                   timeout=60)
        if to:
            s.inconclusive += 1
            return
        base = dict(engine="c13", mode="util_asm", cpu=cpu, script=script)
        if rc != 0:
            raise Violation(dict(base, what="naken_util asm session ended with status %s" % rc, kind="bad_status",
                                 observed=dict(out=out[-400:], err=err[-800:])))
        got = {}
        for line in out.split("\n"):
            line = re.sub(r"^(stopped|asm|running)> ", "", line)
            m = c03.PRINT_ROW.match(line.strip())
            if m:
                b0 = int(m.group(1), 16) * bpa
                for i, h in enumerate(m.group(2).split()[:16]):
                    got.setdefault(b0 + i, int(h, 16))
        bad = [(hex(a), b, got.get(a)) for a, b in sorted(mem.items()) if got.get(a) != b][:6]
        s.count("util_asm.checked")
        if len(blocks) >= 2:
            s.nt(("util_asm", cpu, len(blocks), tuple(e is None for e, _ in blocks)))
        if bad:
            raise Violation(dict(base, what="memory after interactive 'asm' blocks differs from assembling each block "
                                            "on its own (addr, expected, shown)", kind="util_asm_differs", observed=bad))

    @st.composite
    def util_case(draw):
        cpu, bpa = draw(st.sampled_from([("msp430", 1), ("z80", 1), ("68000", 1), ("avr8", 2), ("6502", 1)]))
        nb = draw(st.integers(1, 4))
        blocks = []
        addr = draw(st.sampled_from([0x0, 0x100, 0x1000]))
        for k in range(nb):
            lines = []
            for _ in range(draw(st.integers(1, 4))):
                if draw(st.booleans()) and pools.get(cpu):
                    lines.append(draw(st.sampled_from(pools[cpu])))
                else:
                    lines.append(".dw " + ", ".join("0x%x" % draw(st.integers(0, 65535))
                                                    for _ in range(draw(st.integers(1, 3)))))
            explicit = addr if (k == 0 or bpa != 1 or draw(st.booleans())) else None
            blocks.append((explicit, lines))
            addr += draw(st.sampled_from([0x20, 0x40, 0x100]))
        return cpu, bpa, blocks

    @st.composite
    def stress_program(draw):
        """a legal program with a few hundred forward references inside unary / parenthesised expressions, macro calls
        and conditionals: whatever such statements leave behind in the process (counters, stacks, buffers) is left
        behind a few hundred times"""
        cpu = draw(st.sampled_from(["msp430", "z80", "68000"]))
        p = progs.Prog(cpu)
        p.add(".%s" % cpu, "header")
        n = draw(st.sampled_from([60, 130, 260]))
        forms = ["-(%s)", "~(%s + 1)", "(%s) * 2", "-%s", "((%s))", "%s - (3)", "-(-(%s))", "~%s", "(1 + (%s - 2))", "-(%s + (2 * 3))"]
        p.add(".macro STW(a)", "macrodef")
        p.add("  .dc32 a", "macro:STW")
        p.add(".endm", "macrodef")
        p.macro_invoked.add("STW")
        for i in range(n):
            f = draw(st.sampled_from(forms)) % ("fw%d" % (i % 7))
            k = draw(st.integers(0, 5))
            if k == 0:
                p.add("  STW(%s)" % f, "top")
            elif k == 1:
                p.add(".if 1", "ifdir")
                p.add("  .dc32 %s" % f, "if_taken")
                p.add(".endif", "ifdir")
            else:
                p.add("  .dc32 %s" % f, "top")
        for i in range(7):
            p.add("fw%d:" % i, "top")
            p.add("  .dc32 %d" % i, "top")
        return p

    hist = st.tuples(st.lists(st.one_of(progs.structured_program(pools, align_data=None),
                                        progs.structured_program(pools, align_data=None), stress_program()),
                              min_size=2, max_size=4),
                     st.lists(st.tuples(st.integers(0, 3), st.booleans()), min_size=3, max_size=8)).map(
        lambda t: (t[0], [(i % len(t[0]), l) for i, l in t[1]]))
    try:
        n1 = 150 if tier == "quick" else 2500
        n2 = 100 if tier == "quick" else 1500
        n3 = 400 if tier == "quick" else 6000
        hyp_run(test_cli, cli_case(pools), n1, shard_seed(seed, shard, "c13a"), s)
        hyp_run(test_history, hist, n2, shard_seed(seed, shard, "c13b"), s)
        hyp_run(test_listing, progs.structured_program(pools, align_data=None), n3, shard_seed(seed, shard, "c13c"), s)
        hyp_run(test_util_asm, util_case(), n1, shard_seed(seed, shard, "c13d"), s)
    finally:
        cli.close()
        w.close()
    return s


def selfcheck(m, tier):
    bad = []
    if m["classes"].get("class.cli_nontrivial", 0) < 10:
        bad.append("few CLI cases with -l on and off over a structured program")
    if m["classes"].get("class.history_repeat_after_other", 0) < 10:
        bad.append("few histories re-assemble a program after a different one")
    return bad


def replay(payload):
    s = Stats()
    mode = payload.get("mode")
    if mode == "cli":
        cli = CliChecker(s)
        try:
            p = progs.Prog(payload["cpu"])
            p.lines = payload["src"].rstrip("\n").split("\n")
            p.files = [tuple(f) for f in payload["files"]]
            try:
                cli.check(p, [(t, tuple(o), n) for t, o, n in payload["configs"]])
            except Violation as v:
                return True, v.payload
            return False, "passes"
        finally:
            cli.close()
    if mode == "listing":
        w = Worker("c13r")
        try:
            p = progs.Prog("x")
            p.lines = payload["src"].rstrip("\n").split("\n")
            p.files = [tuple(f) for f in payload["files"]]
            a = snapshot(asm_once(w, p, False))
            b = snapshot(asm_once(w, p, True))
            return a != b, "listing pair"
        finally:
            w.close()
    if mode == "util_asm":
        rc, out, err, to = run_cli("naken_util_san", ["-" + payload["cpu"]], new_scratch("c13u"),
                                   stdin=("\n".join(payload["script"]) + "\n").encode(), timeout=60)
        return (rc != 0 and not to) if payload["kind"] == "bad_status" else True, "util session (re-run the check to compare)"
    if mode == "history":
        plist = []
        for src, files in payload["programs"]:
            p = progs.Prog("x")
            p.lines = src.rstrip("\n").split("\n")
            p.files = [tuple(f) for f in files]
            plist.append(p)
        hw = Worker("c13r")
        try:
            for step, (i, listing) in enumerate(payload["sequence"]):
                got = snapshot(asm_once(hw, plist[i], listing))
                if got != fresh_result(plist[i], listing):
                    return True, "step %d differs" % step
                if got[0] == "crash":
                    hw.stop()
            return False, "passes"
        finally:
            hw.close()
    return False, "unknown mode"
