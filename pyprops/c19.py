"""C19 naken_util memory commands address the same bytes as loader and simulator."""
import os, re, shutil
from hypothesis import strategies as st

from nvlib import (Worker, WorkerCrash, WorkerTimeout, Stats, Violation, hyp_run, shard_seed, load_known, run_cli,
                   new_scratch)
import c18

PROP = "C19"
RULE = ("Hypothesis command histories (3..14 commands) for one naken_util process per history on CPUs with 1/2/4/8 "
        "bytes per address and both byte orders: write/write16/write32 (addresses and values spelled decimal, 0x, "
        "h-suffix, negative), print/print16/print32 (a, a-b), disasm a-b, an optional start-up image (-bin -address), "
        "and for msp430 'write16 <mov #imm,rN>; set pc=; step; registers'. Model = sparse byte map (default 0) + byte "
        "order + bytes-per-address + alignment rules. Every address/value printed must equal the model; written "
        "ranges must be shown; disasm lines must be the disassembly of the model's bytes; the stepped instruction "
        "must have executed what was written; a final print sweep over all touched regions +-16 proves other "
        "addresses unchanged. non-trivial = a multi-byte write later read at a different width or disassembled; "
        "distinct key = (cpu, command-kind sequence)")
ASSUMPTIONS = ["a range 'a-b' must show at least the units a..b-1 (whether b itself is included is not specified)",
               "sessions end with 'quit'; misaligned write16/write32 are refused without changing memory "
               "(the documented error message)"]

# name, bpa, endian(0 little), alignment
CPUS = [("msp430", 1, 0, 2), ("68000", 1, 1, 2), ("avr8", 2, 0, 2), ("propeller", 4, 0, 4), ("mips", 1, 1, 4),
        ("riscv", 1, 0, 4), ("z80", 1, 0, 1), ("ebpf", 8, 0, 4), ("6502", 1, 0, 1), ("arm", 1, 0, 4)]
BASES = [0x0, 0x10, 0x100, 0xfff0, 0x10000, 0x12340, 0x7fff0000 // 8, 0xffff0000 // 8]


def spell(draw, v, allow_neg=False):
    k = draw(st.sampled_from(["dec", "hex", "hexh", "dec"]))
    if allow_neg and v > 0 and draw(st.integers(0, 9)) == 0:
        return "-%d" % ((1 << 32) - v) if v >= (1 << 31) else "%d" % v
    if k == "dec":
        return "%d" % v
    if k == "hex":
        return "0x%x" % v
    h = "%x" % v
    return h + "h"


@st.composite
def history(draw):
    cpu = draw(st.sampled_from(CPUS))
    name, bpa, endian, align = cpu
    base = draw(st.sampled_from(BASES))          # in address units
    cmds = []
    n = draw(st.integers(3, 14))
    startup = None
    if draw(st.integers(0, 3)) == 0:
        data = draw(st.binary(min_size=1, max_size=40))
        startup = (base, data)
    for _ in range(n):
        off = draw(st.integers(0, 24))
        a = base + off
        k = draw(st.sampled_from(["write", "write", "write16", "write32", "print", "print16", "print32", "disasm", "disasm_all"]))
        if k == "disasm_all":
            if draw(st.sampled_from([True, False, False])):
                cmds.append(("disasm_all", 0, 0, "disasm"))
            continue
        if k == "write":
            vals = draw(st.lists(st.integers(0, 255), min_size=1, max_size=6))
            cmds.append(("write", a, vals, "write %s %s" % (spell(draw, a), " ".join(spell(draw, v) for v in vals))))
        elif k == "write16":
            vals = draw(st.lists(st.integers(0, 0xffff), min_size=1, max_size=4))
            cmds.append(("write16", a, vals, "write16 %s %s" % (spell(draw, a), " ".join(spell(draw, v) for v in vals))))
        elif k == "write32":
            vals = draw(st.lists(st.integers(0, 0xffffffff), min_size=1, max_size=3))
            cmds.append(("write32", a, vals, "write32 %s %s" % (spell(draw, a), " ".join(spell(draw, v, True) for v in vals))))
        elif k in ("print", "print16", "print32"):
            ln = draw(st.sampled_from([1, 2, 4, 8, 16, 20, 33]))
            b = a + ln
            cmds.append((k, a, b, "%s %s-%s" % (k, spell(draw, a), spell(draw, b))))
        else:
            ln = draw(st.sampled_from([2, 4, 8, 12]))
            cmds.append(("disasm", a, a + ln, "disasm 0x%x-0x%x" % (a, a + ln)))
    sim = None
    if name == "msp430" and draw(st.booleans()):
        reg = draw(st.integers(4, 15))
        imm = draw(st.sampled_from([0x1234, 0xbeef, 0x7fff, 0x8001, 0x0102]))
        at = base + draw(st.sampled_from([0x40, 0x42, 0x60]))
        if at + 4 < 0xfff0:          # the msp430 program counter is 16 bits wide
            sim = (at, reg, imm)
    return (cpu, startup, cmds, sim)


class Model:
    def __init__(self, cpu):
        self.name, self.bpa, self.endian, self.align = cpu
        self.mem = {}
        self.touched = []

    def rd(self, a):
        return self.mem.get(a & 0xffffffff, 0)

    def write(self, kind, a_units, vals):
        a = a_units * self.bpa
        if kind == "write16" and (a & ((self.align - 1) & 1)):
            return False
        if kind == "write32" and (a & (self.align - 1)):
            return False
        w = {"write": 1, "write16": 2, "write32": 4}[kind]
        for v in vals:
            b = (v & ((1 << (8 * w)) - 1)).to_bytes(w, "little" if self.endian == 0 else "big")
            for x in b:
                self.mem[a & 0xffffffff] = x
                a += 1
        self.touched.append((a_units * self.bpa, a))
        return True


ROW8 = re.compile(r"^0x([0-9a-f]+):((?: [0-9a-f]{2})+)")
ROW16 = re.compile(r"^0x([0-9a-f]+):((?: [0-9a-f]{4})+)")
ROW32 = re.compile(r"^0x([0-9a-f]+):((?: [0-9a-f]{8})+)")


class Checker:
    def __init__(self, stats, worker):
        self.s = stats
        self.w = worker
        self.dir = new_scratch("c19cli")
        self.known = load_known(PROP)

    def close(self):
        shutil.rmtree(self.dir, ignore_errors=True)

    def check(self, case):
        cpu, startup, cmds, sim = case
        name, bpa, endian, align = cpu
        m = Model(cpu)
        args = ["-" + name]
        if startup is not None:
            base, data = startup
            with open(os.path.join(self.dir, "img.bin"), "wb") as f:
                f.write(data)
            args += ["-bin", "-address", "0x%x" % (base * bpa), "img.bin"]
            for i, b in enumerate(data):
                m.mem[(base * bpa + i) & 0xffffffff] = b
            m.touched.append((base * bpa, base * bpa + len(data)))
        script = [c[-1] for c in cmds]
        if sim is not None:
            at, reg, imm = sim
            script += ["write16 0x%x 0x%x 0x%x" % (at, 0x4030 | reg, imm), "set pc=0x%x" % at, "step", "registers"]
        # final sweep
        pre = Model(cpu)
        pre.mem = dict(m.mem)
        pre.touched = list(m.touched)
        for c in cmds:
            if c[0].startswith("write"):
                pre.write(c[0], c[1], c[2])
        if sim is not None:
            pre.write("write16", sim[0], [0x4030 | sim[1], sim[2]])
        sweep = []
        for lo, hi in pre.touched[:8]:
            lo2 = max(0, lo - 16)
            lo2 -= lo2 % (16 * bpa) if bpa > 1 else 0
            hi2 = hi + 16
            hi2 += (-hi2) % bpa
            if hi2 > 0xffffffff:
                continue
            sweep.append((lo2, hi2))
            script.append("print 0x%x-0x%x" % (lo2 // bpa, hi2 // bpa))
        script.append("quit")
        rc, out, err, to = run_cli("naken_util_san", args, self.dir, stdin=("\n".join(script) + "\n").encode(), timeout=20)
        base_p = dict(engine="c19", cpu=list(cpu), args=args, script=script,
                      startup=None if startup is None else (startup[0], startup[1].hex()),
                      cmds=[list(c) for c in cmds], sim=sim)
        if to:
            self.s.inconclusive += 1
            if len(self.s.notes) < 5:
                self.s.notes.append("TIMEOUT %s %s" % (args, script))
            return "timeout"
        if rc != 0:
            raise Violation(dict(base_p, what="naken_util session ended with status %s" % rc, kind="bad_status",
                                 observed=dict(out=out[-300:], err=err[-1200:])))
        # split the output into responses: one per command, separated by the prompt
        body = out.split("Type help for a list of commands.\n", 1)[-1]
        parts = re.split(r"(?:stopped|running)> ", body)
        parts = parts[1:]          # text before the first prompt
        resp = parts[:len(script)]
        if len(resp) < len(script) - 1:
            raise Violation(dict(base_p, what="fewer responses than commands", kind="protocol",
                                 observed=dict(responses=len(resp), commands=len(script), out=out[-400:])))

        def fail(what, kind, i, observed):
            raise Violation(dict(base_p, what=what, kind=kind, command=script[i], observed=observed))

        def rows(text, rx, width):
            got = {}
            for line in text.split("\n"):
                mm = rx.match(line.strip())
                if mm:
                    a = int(mm.group(1), 16) * bpa
                    toks = mm.group(2).split()[:16 // width]
                    for k, h in enumerate(toks):
                        got.setdefault(a + k * width, int(h, 16))
            return got

        def expect_range(i, a, b, width, got):
            # every shown value must equal the model; units a..b-1 must be shown
            for addr, v in got.items():
                want = int.from_bytes(bytes(m.rd(addr + k) for k in range(width)), "little" if endian == 0 else "big")
                if v != want:
                    fail("value shown differs from what was written (address, expected, shown)", "wrong_value", i,
                         (hex(addr), hex(want), hex(v)))
            need = range(a * bpa, b * bpa, width)
            missing = [hex(x) for x in need if x not in got]
            if missing:
                fail("addresses named by the range are not shown", "missing_range", i, missing[:6])

        idx = 0
        for c in cmds:
            r = resp[idx] if idx < len(resp) else ""
            kind = c[0]
            if kind.startswith("write"):
                ok = m.write(kind, c[1], c[2])
                refused = "not" in r and "aligned" in r
                if ok and refused:
                    fail("aligned %s refused" % kind, "refused", idx, r[:200])
                if not ok and not refused:
                    fail("misaligned %s not refused" % kind, "not_refused", idx, r[:200])
            elif kind == "print":
                expect_range(idx, c[1], c[2], 1, rows(r, ROW8, 1))
            elif kind == "print16":
                if (c[1] * bpa) & ((align - 1) & 1):
                    pass
                else:
                    expect_range(idx, c[1], c[2], 2, rows(r, ROW16, 2))
            elif kind == "print32":
                if (c[1] * bpa) & (align - 1):
                    pass
                else:
                    expect_range(idx, c[1], c[2], 4, rows(r, ROW32, 4))
            elif kind == "disasm_all" and name != "ebpf":
                # no range: everything that is in memory (loaded or written) between the lowest and the highest address
                self.check_disasm_all(idx, name, bpa, m, r, fail)
            elif kind == "disasm" and name != "ebpf":
                # ebpf: the range loop advances by less than one address unit on undefined opcodes, so the printed
                # (unit) addresses are ambiguous; that tiling defect is C08's and is not re-reported here
                self.check_disasm(idx, name, bpa, m, r, fail)
            idx += 1
        if sim is not None:
            at, reg, imm = sim
            m.write("write16", at, [0x4030 | reg, imm])
            regs = resp[idx + 3] if idx + 3 < len(resp) else ""
            mm = re.search(r"r%d: 0x([0-9a-f]{4})" % reg, regs)
            pc = re.search(r"PC: 0x([0-9a-f]{4})", regs)
            if not mm or int(mm.group(1), 16) != imm or not pc or int(pc.group(1), 16) != (at + 4) & 0xffff:
                fail("the simulator did not execute the instruction written with write16 (mov.w #0x%x, r%d at 0x%x)"
                     % (imm, reg, at), "sim_disagrees", idx + 2,
                     dict(reg=mm.group(1) if mm else None, pc=pc.group(1) if pc else None))
            self.s.count("class.sim_step")
            idx += 4
        for (lo2, hi2) in sweep:
            r = resp[idx] if idx < len(resp) else ""
            got = rows(r, ROW8, 1)
            bad = [(hex(a), m.rd(a), got.get(a)) for a in range(lo2, hi2) if got.get(a) != m.rd(a)][:6]
            if bad:
                fail("final sweep: memory differs from the model (address, expected, shown)", "sweep_differs", idx, bad)
            idx += 1
        return "ok"

    def check_disasm_all(self, i, name, bpa, m, text, fail):
        if not m.mem:
            return
        addrs = []
        for line in text.split("\n"):
            mm = c18.ADDR_LINE.match(line)
            if mm:
                addrs.append(int(mm.group(1), 16) * bpa)
        covered = set()
        for a in addrs:
            ctx = bytes(m.rd(a + k) for k in range(32))
            try:
                d = self.w.dis(name, a, ctx)
            except (WorkerCrash, WorkerTimeout):
                return
            ln = d[0][1] if d and d[0][1] > 0 else bpa
            for k in range(max(ln, bpa)):
                covered.add(a + k)
        # an instruction word that is only partly inside [lowest, highest address] need not be listed
        al = max(self_align(name), bpa)
        lo_, hi_ = min(m.mem), max(m.mem)
        if lo_ % al:
            # byte writes made the lowest address unaligned: where the walk of an aligned ISA starts is then not defined
            self.s.count("class.disasm_all_unaligned_low_skipped")
            return
        missing = sorted(a for a in m.mem if a not in covered and (a - a % al) >= lo_ and (a - a % al) + al - 1 <= hi_)
        self.s.count("class.disasm_all")
        if len(set(a >> 16 for a in m.mem)) > 1:
            self.s.count("class.disasm_all_multi_page")
        if missing:
            fail("bytes that are in memory are not shown by 'disasm' without a range", "disasm_all_missing", i,
                 dict(first_missing=[hex(x) for x in missing[:6]], count=len(missing), shown=len(addrs)))

    def check_disasm(self, i, name, bpa, m, text, fail):
        seen = set()
        for line in text.split("\n"):
            mm = c18.ADDR_LINE.match(line)
            if not mm:
                continue
            a = int(mm.group(1), 16) * bpa
            if a in seen:
                continue        # range tiling is C08's business
            seen.add(a)
            if "???" in line:
                continue
            rest = mm.group(2)
            ctx = bytes(m.rd(a + k) for k in range(32))
            try:
                d = self.w.dis(name, a, ctx)
            except (WorkerCrash, WorkerTimeout):
                return
            if not d or d[0][1] <= 0 or "<<UNTERMINATED>>" in d[0][2]:
                continue
            _, ln, t = d[0]
            nt = c18.norm(t)
            nr = c18.norm(rest)
            k = nr.find(nt) if nt else -1
            if k < 0:
                # text differs from the plain decoder (e.g. msp430 interrupt vector lines): only the opcode column
                # (leading hex groups) is compared
                mm2 = re.match(r"^((?:(?:0x[0-9a-fA-F]+|(?:[0-9a-fA-F]{2})+) )+)", nr + " ")
                if not mm2:
                    continue
                k = len(mm2.group(1))
                ln = 0
            toks = c18.hex_tokens(nr[:k])
            # msp430-style continuation words are on following lines: only compare the first group(s) shown
            shown_bytes = sum(len(x) for x in toks) // 2
            b = bytes(m.rd(a + j) for j in range((min(ln, shown_bytes) if ln else shown_bytes) if shown_bytes else ln))
            if toks and not c18.matches(b, toks):
                fail("opcode column of disasm does not show the bytes that were written", "wrong_disasm_bytes", i,
                     dict(line=line, memory=b.hex()))
            self.s.count("class.disasm_line_checked")


def self_align(name):
    return {c[0]: c[3] for c in CPUS}.get(name, 1)


def run(tier, seed, shard, nshards):
    s = Stats()
    w = Worker("c19")
    ck = Checker(s, w)

    def test(case):
        s.evaluations += 1
        cpu, startup, cmds, sim = case
        res = ck.check(case)
        s.count("result." + res)
        s.count("cpu." + cpu[0])
        kinds = [c[0] for c in cmds]
        wide = any(k in ("write16", "write32") for k in kinds)
        later = False
        seen_wide = False
        for k in kinds:
            if k in ("write16", "write32"):
                seen_wide = True
            elif seen_wide and k in ("print", "disasm", "print32", "print16"):
                later = True
        if wide and later:
            s.nt((cpu[0], tuple(kinds)))
            if len(s.samples) < 4:
                s.sample(dict(cpu=cpu[0], script=[c[-1] for c in cmds]))

    try:
        n = 1500 if tier == "quick" else 5000
        hyp_run(test, history(), n, shard_seed(seed, shard, "c19"), s)
    finally:
        ck.close()
        w.close()
    return s


def replay(payload):
    s = Stats()
    w = Worker("c19r")
    ck = Checker(s, w)
    try:
        cpu = tuple(payload["cpu"])
        st_ = payload.get("startup")
        startup = None if st_ is None else (st_[0], bytes.fromhex(st_[1]))
        cmds = [tuple(c) for c in payload["cmds"]]
        sim = tuple(payload["sim"]) if payload.get("sim") else None
        try:
            ck.check((cpu, startup, cmds, sim))
        except Violation as v:
            return True, v.payload
        return False, "passes"
    finally:
        ck.close()
        w.close()
