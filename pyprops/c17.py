"""C17 naken_util never crashes, hangs or corrupts memory on any file or command (two libFuzzer campaigns)."""
import os, glob, shutil, struct, tempfile
from nvlib import (Stats, run_cli)
import fuzzdrv

PROP = "C17"
TARGETS = ["fuzz_util_file", "fuzz_util_cmd", "naken_asm_san", "naken_util_san"]
RULE = ("coverage-guided fuzzing (libFuzzer, ASan + UBSan bounds/div-by-zero/null, 16 processes) of two in-process "
        "targets. fuzz_util_file (shards 0-9): format byte (forced loader hex/bin/elf/srec/wdc/amiga/ti_txt/macho/uf2 "
        "or auto-detection by extension and magic) + CPU byte + file bytes -> file_read() as naken_util does, then "
        "disassembly of 2 KiB windows at both ends of the loaded range with the selected CPU, print/print16/print32 "
        "and the symbol dump; seeds are real files written by naken_asm in every writable format (programs with "
        "symbols, several segments, 68000/msp430/arm/mips) plus the committed regression inputs; a structure-aware "
        "mutator overwrites aligned 2/4-byte header fields with {0,1,0xff..,0x7fffffff,0x80000000,file length+-2}. "
        "fuzz_util_cmd (shards 10-15): CPU byte + mode + script -> main() of naken_util in-process (interactive with "
        "or without a loaded hex file, or -disasm) with stdin = 'speed 0' + fuzzed command lines + quit; seeds use "
        "every command of command_names[] with number spellings, ranges, symbols and over-long tokens. Oracle: no "
        "sanitizer report, signal or time-out (time-outs re-run with 60 s); exit() while loading must carry status "
        "1. Output above 4 MB per input ends the iteration (requested output). non-trivial = corpus unit kept by "
        "libFuzzer; evaluations = executions; the evidence classes count files accepted per loader. Third part (every "
        "shard, Hypothesis + sanitized CLI): generated command lines (every CPU option, -bin/-address/-set_pc/-break_io/"
        "-disasm/-disasm_range with and without their argument, unknown options, missing/empty/bin/hex files) and scripted "
        "sessions over every interactive command with edge addresses (0, 64 KiB and 2^31 boundaries, top of the 32-bit "
        "space), number spellings, ranges of known span (<= 600 units), register names and junk; the process must end by "
        "itself with status 0/1, without sanitizer report or signal, and with output bounded by the requested spans")
ASSUMPTIONS = ["work proportional to requested output (print 0-0xffffffff) is not a hang: the target cuts an iteration after 4 MB of output",
               "interactive `run` without `speed 0` runs until Ctrl-C by design; scripts are forced into single-step mode"]

PROGS = {
    "msp430": ".msp430\n.org 0xf000\nstart:\n  mov.w #0x1234, r5\nloop:\n  add.w r5, r6\n  jmp loop\n.org 0xfffe\n  dw start\n",
    "68000": ".68000\n.org 0x1000\nmain:\n  move.l #1, d0\n  bra.s main\ndata:\n  dc32 0x12345678\n.org 0x2000\nfunc:\n  rts\n",
    "arm": ".arm\n.org 0x8000\nentry:\n  mov r0, #1\n  b entry\n.ascii \"hello\"\n",
    "mips": ".mips\n.org 0x80000000\nmain:\n  li $t0, 0x1234\n  j main\n  nop\n",
    "z80": ".z80\n.org 0x100\nbegin:\n  ld a, 5\n  jp begin\n",
    "65816": ".65816\n.org 0x8000\nreset:\n  lda #1\n  bra reset\n",
}
TYPES = ["hex", "bin", "elf", "srec", "wdc", "amiga", "ti_txt", "macho", "uf2"]
CMD_SEEDS = [
    b"\x00\x01print 0-0x20\nprint16 0x0-0x10\nprint32 0-8\ndisasm 0-0x10\nregisters\nstep\nstep\nrun\ninfo\n",
    b"\x00\x00write 0x100 1 2 3 4\nwrite16 0x200 0x1234 0x5678\nwrite32 0x300 0xdeadbeef\nprint 0x100-0x110\ndisasm 0x100-0x108\n",
    b"\x00\x00asm 0x400\n  mov.w #5, r4\n  add.w r4, r5\n\ndisasm 0x400-0x408\nset pc=0x400\nstep\nstep\nreg\n",
    b"\x00\x00set r5=0xffff\nset sp=0x200\npush 0x1234\nclear c\nset c=1\nbreak 0x10\nbreak\ncall 0x0\nreset\nsymbols\n",
    b"\x00\x01dumpram 0-16\ndump_ram 0x0-0x20\ndisplay\nno_clear\nhelp\n?\nstop\nspeed 0\nexit\n",
    b"\x10\x00write 0 0xa9 0x01 0x8d 0x00 0x02 0x00\nset pc=0\nstep\nstep\nstep\nregisters\nprint 0x200-0x201\n",
    b"\x20\x00print 10h-20h\nprint 0x10-\nprint -0x10\nprint main\ndisasm start-\nwrite 0xffffffff 1\nprint 0xfffffff0-0xffffffff\n",
    b"\x30\x02\n", b"\x00\x03\n",
    b"\x05\x00set " + b"r" * 600 + b"=1\nprint " + b"9" * 700 + b"\n" + b"x" * 1100 + b"\n",
]
CMD_DICT = ["asm", "break", "call", "clear", "disasm", "display", "dumpram", "dump_ram", "exit", "help", "info", "no_clear",
            "print", "print16", "print32", "push", "quit", "registers", "reg", "reset", "run", "set", "speed", "step", "stop",
            "symbols", "write", "write16", "write32", "0x", "-", "=", "pc", "sp", "r0", "r15", "0xffffffff", "0x10000",
            "h", " 1 2 3", "\n\n"]
FILE_DICT = [b"\x7fELF", b"\x00\x00\x03\xf3", b"\xce\xfa\xed\xfe", b"\xcf\xfa\xed\xfe", b"UF2\n", b"\x57\x51\x5d\x9e", b"\x30\x6f\xb1\x0a",
             b":00000001FF", b":02000004", b":020000021000", b"S9030000FC", b"S1", b"S2", b"S3", b"S7", b"S8", b"@f000", b"q\n", b"Z",
             b".symtab", b".strtab", b".text", b".data", b".shstrtab", b"\xff\xff\xff\xff", b"\x00\x00\x00\x80"]


def make_file_seeds(d):
    """assemble small programs into every writable format with the sanitized CLI"""
    n = 0
    tmp = tempfile.mkdtemp(prefix="c17seed_", dir="/verif/build")
    try:
        for ci, (cpu, src) in enumerate(sorted(PROGS.items())):
            with open(os.path.join(tmp, "p.asm"), "w") as f:
                f.write(src)
            for ti, t in enumerate(TYPES):
                out = "o.%s" % t
                rc, o, e, to = run_cli("naken_asm_san", ["-type", t, "-o", out, "p.asm"], cwd=tmp, timeout=60)
                p = os.path.join(tmp, out)
                if rc == 0 and os.path.exists(p) and os.path.getsize(p) < 60000:
                    data = open(p, "rb").read()
                    for fmt in (ti, 10 + min(ti, 9)):
                        with open(os.path.join(d, "%s_%s_%d" % (cpu, t, fmt)), "wb") as f:
                            f.write(bytes([fmt, 255 if fmt >= 10 else ci * 7, n & 0xff]) + data)
                        n += 1
    finally:
        shutil.rmtree(tmp, ignore_errors=True)
    for p in sorted(glob.glob("/verif/corpus/C17/file_*")):
        shutil.copy(p, os.path.join(d, "reg_" + os.path.basename(p)))
        n += 1
    return n


def make_cmd_seeds(d):
    n = 0
    for b in CMD_SEEDS:
        with open(os.path.join(d, "cmd%02d" % n), "wb") as f:
            f.write(b)
        n += 1
    for p in sorted(glob.glob("/verif/corpus/C17/cmd_*")):
        shutil.copy(p, os.path.join(d, "reg_" + os.path.basename(p)))
        n += 1
    return n


def run(tier, seed, shard, nshards):
    s = Stats()
    budget = int(os.environ.get("NV_C17_SECONDS", "40" if tier == "quick" else "600"))
    only = os.environ.get("NV_C17_PART", "")             # development aid: run one part only
    if only == "sessions":
        import c17s
        c17s.part(s, tier, seed, shard)
        return s
    if shard < 10 or nshards < 16:
        fuzzdrv.campaign(s, PROP, "fuzz_util_file", tier, seed, shard, budget, make_file_seeds, FILE_DICT,
                         "/verif/corpus/C17/file_*", max_len=16384,
                         what="naken_util crashed / corrupted memory while loading or showing this object file")
    if shard >= 10 or nshards < 16:
        fuzzdrv.campaign(s, PROP, "fuzz_util_cmd", tier, seed, shard - 10 if nshards >= 16 else shard, budget, make_cmd_seeds,
                         CMD_DICT, "/verif/corpus/C17/cmd_*", max_len=4096,
                         what="naken_util crashed / corrupted memory on this command sequence")
    import c17s
    c17s.part(s, tier, seed, shard)
    return s


def replay(payload):
    if payload.get("engine") == "c17s":
        import c17s
        return c17s.replay(payload)
    return fuzzdrv.replay(PROP, payload, "fuzz_util_file")
