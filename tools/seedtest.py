#!/usr/bin/env python3
"""seedtest.py <seed id> [check ids...] [--tier quick|thorough] [--inplace] [--seed N]
Runs the named checks (default: the mutant's property) against the repository with
/verif/seeded/<id>/patch.diff applied and records the outcome in meta.json ('detected_by').

Default: a scratch git worktree of /repo's HEAD under /tmp (NV_REPO points the checks at it, evidence and
replays go to a scratch directory, everything is removed afterwards) - several of these can run side by side
and /repo is never touched.  --inplace: apply to /repo itself, run, and ALWAYS revert (git checkout -- .)."""
import sys, os, json, subprocess, shutil, hashlib
args = [a for a in sys.argv[1:] if not a.startswith("--")]
tier = "quick"
vseed = None
if "--tier" in sys.argv:
    tier = sys.argv[sys.argv.index("--tier") + 1]
    args = [a for a in args if a != tier]
if "--seed" in sys.argv:
    vseed = sys.argv[sys.argv.index("--seed") + 1]
    args.remove(vseed)
inplace = "--inplace" in sys.argv
sid = args[0]
d = "/verif/seeded/" + sid
meta = json.load(open(d + "/meta.json"))
checks = args[1:] or [meta["property"]]
env = dict(os.environ)
if vseed:
    env["VERIF_SEED"] = vseed
wt = None
if inplace:
    st = subprocess.run("git -C /repo status --porcelain --untracked-files=no", shell=True, capture_output=True, text=True).stdout
    if st.strip():
        print("refusing: /repo has uncommitted changes"); sys.exit(2)
    r = subprocess.run("git -C /repo apply %s/patch.diff" % d, shell=True)
    if r.returncode != 0:
        print("patch does not apply"); sys.exit(2)
else:
    wt = "/tmp/st_%s_%d" % (sid, os.getpid())
    r = subprocess.run("git -C /repo worktree add --detach %s HEAD >/dev/null 2>&1 && git -C %s apply %s/patch.diff" % (wt, wt, d),
                       shell=True)
    if r.returncode != 0:
        subprocess.run("git -C /repo worktree remove --force %s" % wt, shell=True)
        print("patch does not apply"); sys.exit(2)
    env["NV_REPO"] = wt
    env["NV_EVIDENCE_DIR"] = wt + "/.nv_evidence"
    env["NV_REPLAY_DIR"] = wt + "/.nv_replays"
res = {}
try:
    for c in checks:
        p = subprocess.run("cd /verif && ./check %s --tier %s" % (c, tier), shell=True, capture_output=True, text=True, env=env)
        viol = [l for l in p.stdout.split("\n") if l.startswith("VIOLATION")]
        res[c] = {"exit": p.returncode, "violations": len(viol), "first": (p.stdout.split("VIOLATION", 1)[1][:600] if viol else ""),
                  "tail": p.stdout.strip().split("\n")[-1][:300]}
        print(sid, c, "exit=%d" % p.returncode, "violations=%d" % len(viol), res[c]["tail"][-80:])
        if viol:
            print("   ", res[c]["first"][:400].replace("\n", " "))
        elif p.returncode not in (0, 1):
            print(p.stdout[-1500:], p.stderr[-1500:])
finally:
    if inplace:
        subprocess.run("git -C /repo checkout -- .", shell=True)
    else:
        sys.path.insert(0, "/verif")
        os.environ["NV_REPO"] = wt
        import nvbuild
        shutil.rmtree(nvbuild.build_dir(wt), ignore_errors=True)
        subprocess.run("git -C /repo worktree remove --force %s" % wt, shell=True)
        shutil.rmtree(wt, ignore_errors=True)
meta = json.load(open(d + "/meta.json"))
meta.setdefault("runs", {})
for c in res:
    meta["runs"]["%s/%s" % (c, tier)] = res[c]
meta["detected_by"] = sorted(set([k for k, v in meta["runs"].items() if v["exit"] == 1 and v["violations"] > 0]))
json.dump(meta, open(d + "/meta.json", "w"), indent=1)
