#!/usr/bin/env python3
"""seedtest.py <seed id> [check ids...] [--tier quick|thorough]
Applies /verif/seeded/<id>/patch.diff to /repo, runs the named checks (default: the mutant's property),
and ALWAYS reverts /repo afterwards.  Records the outcome in meta.json ('detected_by')."""
import sys, os, json, subprocess
args = [a for a in sys.argv[1:] if not a.startswith("--")]
tier = "quick"
if "--tier" in sys.argv:
    tier = sys.argv[sys.argv.index("--tier") + 1]
    args = [a for a in args if a != tier]
sid = args[0]
d = "/verif/seeded/" + sid
meta = json.load(open(d + "/meta.json"))
checks = args[1:] or [meta["property"]]
st = subprocess.run("git -C /repo status --porcelain --untracked-files=no", shell=True, capture_output=True, text=True).stdout
if st.strip():
    print("refusing: /repo has uncommitted changes"); sys.exit(2)
r = subprocess.run("git -C /repo apply %s/patch.diff" % d, shell=True)
if r.returncode != 0:
    print("patch does not apply"); sys.exit(2)
res = {}
try:
    for c in checks:
        p = subprocess.run("cd /verif && ./check %s --tier %s" % (c, tier), shell=True, capture_output=True, text=True)
        viol = [l for l in p.stdout.split("\n") if l.startswith("VIOLATION")]
        res[c] = {"exit": p.returncode, "violations": len(viol), "first": (p.stdout.split("VIOLATION", 1)[1][:600] if viol else ""),
                  "tail": p.stdout.strip().split("\n")[-1][:300]}
        print(sid, c, "exit=%d" % p.returncode, "violations=%d" % len(viol))
        if viol:
            print("   ", res[c]["first"][:400].replace("\n", " "))
finally:
    subprocess.run("git -C /repo checkout -- .", shell=True)
meta.setdefault("runs", {})
for c in res:
    meta["runs"]["%s/%s" % (c, tier)] = res[c]
meta["detected_by"] = sorted(set([k for k, v in meta["runs"].items() if v["exit"] == 1 and v["violations"] > 0]))
json.dump(meta, open(d + "/meta.json", "w"), indent=1)
