#!/bin/bash
# run_all.sh <tier> [ids...] : run the checks one after the other, one summary line each (log in build/run_all_<tier>.log)
tier=${1:-quick}; shift
ids=${@:-C01 C02 C03 C04 C05 C06 C07 C08 C09 C10 C11 C12 C13 C14 C15 C16 C17 C18 C19 C20}
cd /verif
log=build/run_all_$tier.log
: > $log
for c in $ids; do
  ./check $c --tier $tier > build/run_$c.$tier.out 2>&1
  rc=$?
  echo "rc=$rc $(tail -1 build/run_$c.$tier.out)" >> $log
  grep -c "^VIOLATION" build/run_$c.$tier.out | sed "s/^/   violations printed: /" >> $log
done
echo ALLDONE >> $log
