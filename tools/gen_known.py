#!/usr/bin/env python3
"""gen_known.py <PROP> <survey file> : turn a thorough NV_SURVEY dump into open known-findings entries.
C07 / C01: one finding per (cpu, kind[, signature]) listing the mnemonics, with one example payload per finding.
C06: one finding per cpu listing the template keys.  Existing open findings of that property with the id prefix
'<PROP>-auto-' are replaced; fixed entries and hand-written findings are kept."""
import sys, json, re, ast
prop, paths = sys.argv[1], sys.argv[2:]
kf = json.load(open("/verif/known_findings.json"))
kf["findings"] = [f for f in kf["findings"] if not (f["property"] == prop and f["id"].startswith(prop + "-auto-"))]
groups = {}
import itertools
for line in itertools.chain.from_iterable(open(p_, errors="replace") for p_ in paths):
    f = line.rstrip("\n").split("\t")
    if f[0] != "SURVEY":
        continue
    if prop in ("C07", "C01"):
        cpu, kind, mn, cnt, payload = f[1], f[2], f[3], f[4], f[5]
        sig = "*"
        if "/" in mn:
            mn, sig = mn.rsplit("/", 1)
        try:
            pl = json.loads(payload)
        except ValueError:
            try:
                pl = ast.literal_eval(payload)
            except Exception:
                m = re.search(r"'pattern': (\d+)", payload)
                pl = {"pattern": int(m.group(1)), "mode": "scan"} if m else {"raw": payload[:200]}
        if isinstance(pl, dict) and pl.get("mode") == "roundtrip" and not kind.endswith("_rt"):
            kind += "_rt"
        g = groups.setdefault((cpu, kind, sig), {"mn": set(), "ex": None, "n": 0})
        g["mn"].add(mn)
        g["n"] += int(cnt)
        if g["ex"] is None:
            g["ex"] = dict(pl, cpu=cpu, kind=kind)
            if "pattern" in pl and "mode" not in pl:
                g["ex"]["mode"] = "scan"
    elif prop == "C06":
        cpu, key, kind, vals = f[1], f[2], f[3], f[4]
        g = groups.setdefault((cpu,), {"keys": {}, "kinds": set()})
        g["keys"][key] = (kind, vals[:120])
        g["kinds"].add(kind)
what = {"c01_refix_rt": "re-assembling the disassembly of the bytes emitted for a generated instruction text gives different bytes",
        "c01_walk_rt": "walking the disassembler over the bytes emitted for a generated instruction text does not consume exactly those bytes",
        "asm_crash_rt": "the assembler crashes on a generated instruction text", "dis_crash_rt": "the disassembler crashes on emitted bytes",
        "c07_mismatch": "decode -> assemble -> decode gives a different rendering",
        "c01_refix": "re-assembling the disassembly of the emitted bytes gives different bytes",
        "c01_walk": "walking the disassembler over the emitted bytes does not consume exactly those bytes",
        "asm_crash": "the assembler crashes", "asm_hang": "the assembler hangs", "dis_crash": "the disassembler crashes",
        "golden_rejected": "a valid instruction is rejected", "golden_mismatch": "encoding differs from the architecture manual"}
sigtxt = {"mnemonic": "the mnemonic changes", "operands": "the operand list changes shape/order", "numeric": "a numeric operand changes value",
          "*": ""}
n = 0
for key in sorted(groups):
    g = groups[key]
    if prop in ("C07", "C01"):
        cpu, kind, sig = key
        mns = sorted(g["mn"])
        if kind.endswith("_rt") and len(mns) >= 12:
            mns = ["*"]          # open-ended generated texts: the whole CPU is listed once it fails for a dozen mnemonics
        ex = g["ex"]
        desc = ex.get("first") and "%s -> %s" % (ex.get("first"), ex.get("second")) or ex.get("text") or ""
        if ex.get("decoded") and isinstance(ex.get("decoded"), str):
            desc = "%s -> %s" % (ex.get("text"), ex.get("decoded"))
        fid = "%s-auto-%s-%s%s" % (prop, cpu, kind, "" if sig == "*" else "-" + sig)
        kf["findings"].append({
            "property": prop, "id": fid, "status": "open",
            "root_cause": "%s: %s%s for %d mnemonic(s) (%s%s); e.g. %s" % (
                cpu, what.get(kind, kind), (" (" + sigtxt[sig] + ")") if sigtxt.get(sig) else "", len(mns), ", ".join(mns[:8]),
                ", ..." if len(mns) > 8 else "", str(desc)[:160]),
            "match": {"pred": "cpu_kind_mnemonics", "cpus": [cpu], "kind": kind, "signature": sig, "mnemonics": mns},
            "example": ex,
            "why_not_fixed": "assembler/disassembler disagreement in CPU-specific code; each needs the architecture manual to decide which side is wrong (recorded, not repaired)"})
        n += 1
    else:
        cpu, = key
        keys = sorted(g["keys"])
        k0 = keys[0]
        kf["findings"].append({
            "property": prop, "id": "%s-auto-%s" % (prop, cpu), "status": "open",
            "root_cause": "%s: %d instruction form(s) accept operand values that do not fit and encode them like another value (%s); e.g. '%s' values %s" % (
                cpu, len(keys), ", ".join(sorted(g["kinds"])), k0, g["keys"][k0][1]),
            "match": {"pred": "cpu_template_keys", "cpu": cpu, "keys": keys},
            "example": {"cpu": cpu, "key": k0},
            "why_not_fixed": "missing or too wide range checks in CPU-specific operand parsing; many call sites (recorded per template)"})
        n += 1
json.dump(kf, open("/verif/known_findings.json", "w"), indent=1)
print("wrote", n, "findings for", prop)
