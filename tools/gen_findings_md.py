#!/usr/bin/env python3
"""Regenerates DESIGN.md section 10 (findings) from known_findings.json."""
import json, re
kf = json.load(open("/verif/known_findings.json"))
out = ["## 10. Findings on mikeakohn/naken_asm (generated from known_findings.json by tools/gen_findings_md.py)", "",
       "Every entry was reproduced against the real code before it was called a defect (failing input in the `fix:` "
       "commit message, in `corpus/`, in `seeded/` demos or in the finding's `example`). Repairs are minimal unguarded "
       "`fix:` commits in /repo; the 7,798 baseline tests pass with all of them (tools/baseline_check.py).", "",
       "### 10.1 Repaired (%d `fix:` commits)" % len(kf["fixed"]), ""]
by = {}
for f in kf["fixed"]:
    m = re.match(r"fixed: property=(C\d+) (\S+) (.*)", f)
    if m:
        by.setdefault(m.group(1), []).append((m.group(2), m.group(3)))
for pid in sorted(by):
    out.append("**%s**" % pid)
    for h, t in by[pid]:
        out.append("* `%s` %s" % (h, t))
    out.append("")
out += ["### 10.2 Recorded, not repaired (open known findings)", "",
        "A check prints one `KNOWN-FINDING` line per entry while its example still fails and exits 0; anything that matches no "
        "entry is a VIOLATION. The match predicates are specific (CPU + template / mnemonic + kind of disagreement / "
        "pattern range / crash site), so a different violation of the same property is still reported.", ""]
byp = {}
for f in kf["findings"]:
    byp.setdefault(f["property"], []).append(f)
for pid in sorted(byp):
    lst = byp[pid]
    out.append("**%s** (%d entries)" % (pid, len(lst)))
    auto = [f for f in lst if "-auto-" in f["id"]]
    hand = [f for f in lst if "-auto-" not in f["id"]]
    for f in hand:
        out.append("* `%s` %s — *why not fixed:* %s" % (f["id"], f["root_cause"][:400], f.get("why_not_fixed", "")[:300]))
    if auto:
        cpus = sorted(set(f["match"].get("cpus", [f["match"].get("cpu")])[0] for f in auto))
        out.append("* %d generated entries (from the thorough survey of the unchanged tree) for the CPUs %s; each names the "
                   "CPU, the kind of disagreement, the mnemonics/templates and one failing example. %s" % (
                       len(auto), ", ".join(cpus), auto[0].get("why_not_fixed", "")))
    out.append("")
md = open("/verif/DESIGN.md").read()
i = md.find("## 10. Findings on")
if i >= 0:
    md = md[:i]
md = md.rstrip("\n") + "\n\n" + "\n".join(out) + "\n"
open("/verif/DESIGN.md", "w").write(md)
print("section 10 written:", len(kf["fixed"]), "fixed,", len(kf["findings"]), "open")
