#!/usr/bin/env python3
"""Run the repository's own test suite (guard off, stock build) and compare the
set of passing test names with /root/.vp/BASELINE.json.
usage: baseline_check.py [repo]   (exit 0 = every baseline test still passes)"""
import json, re, subprocess, sys, os
repo = sys.argv[1] if len(sys.argv) > 1 else "/repo"
base = set(json.load(open("/root/.vp/BASELINE.json"))["stable_pass"])
subprocess.run("cd %s && ([ -f config.mak ] || ./configure >/dev/null) && make -j16 >/dev/null 2>&1" % repo, shell=True)
p = subprocess.run("cd %s && make -k tests 2>&1" % repo, shell=True, stdout=subprocess.PIPE)
out = p.stdout.decode("latin-1")
out = re.sub(r"\x1b\[[0-9;]*m", "", out)
passed = set()
for line in out.split("\n"):
    m = re.match(r"^(.*?)\s*\.\.\.\s*PASS", line)
    if m:
        passed.add(m.group(1).strip())
        continue
    m = re.match(r"^(.*?):\s*PASS", line)
    if m:
        passed.add(m.group(1).strip())
passed |= set(x.rstrip('-+ ') for x in passed)   # the harness's name parser drops trailing '--'
missing = sorted(base - passed)
print("baseline=%d passed_now=%d missing=%d" % (len(base), len(passed & base), len(missing)))
for m in missing[:40]:
    print("  MISSING:", m)
sys.exit(0 if not missing else 1)
