#!/bin/bash
# usage: confirm_mutant.sh <worktree> <mutdir>
# Confirms in the scratch worktree (reset to /repo's HEAD): patch applies, builds, the repository's test suite
# still passes, demo.sh exits 1 with the patch and 0 without.  Prints one RESULT line.
wt=$1; mut=$2
head=$(git -C /repo rev-parse HEAD)
cd $wt || exit 9
git checkout -q -- . ; git checkout -q --detach $head || exit 9
if ! git apply --check $mut/patch.diff 2>/dev/null; then echo "RESULT $mut applies=no"; exit 0; fi
# clean tree first
[ -f config.mak ] || ./configure >/dev/null
make -j4 >/dev/null 2>&1
bash $mut/demo.sh $wt >/dev/null 2>&1; clean_rc=$?
git apply $mut/patch.diff
make -j4 >/dev/null 2>&1; build_rc=$?
bash $mut/demo.sh $wt >/dev/null 2>&1; mut_rc=$?
python3 /verif/tools/baseline_check.py $wt > $mut/baseline.txt 2>&1; base_rc=$?
git checkout -q -- .
make -j4 >/dev/null 2>&1
echo "RESULT $mut applies=yes build_rc=$build_rc demo_clean=$clean_rc demo_mutant=$mut_rc baseline_rc=$base_rc $(tail -1 $mut/baseline.txt | head -c 100)"
