#!/usr/bin/env python3
import json, sys
pid = sys.argv[1]
wt = sys.argv[2]
n = sys.argv[3] if len(sys.argv) > 3 else "2"
import glob, os
avoid = []
for m in sorted(glob.glob('/verif/seeded/%s-*/meta.json' % pid)):
    avoid.append(json.load(open(m))['needs_to_manifest'])
avoid_txt = ""
if avoid:
    avoid_txt = ("\n\nEarlier rounds already produced changes that manifest under the following conditions; yours must use DIFFERENT "
                 "code sites, mechanisms and (where the property spans many CPUs/formats/directives/commands) different CPUs/formats/"
                 "directives/commands, and should exercise a different clause of the statement where it has several:\n" +
                 "\n".join("  - " + a for a in avoid))
for l in open('/verif/properties.jsonl'):
    d = json.loads(l)
    if d['id'] == pid:
        break
print(f"""You are helping to evaluate a verification effort for the open-source project mikeakohn/naken_asm (a multi-CPU assembler `naken_asm`, disassembler/simulator `naken_util`, written in C-style C++). You have your own scratch git worktree of the repository at {wt} . Work ONLY inside {wt} (never touch /repo or /verif, do not read /verif).

Here is a semantic property that the software is supposed to satisfy:

  Title: {d['title']}
  Statement: {d['statement']}
  Quantified over: {d['quantifier']['text']}
  Code the property is anchored in: {', '.join(d['anchors']['files'])}

Your task: produce {n} DIFFERENT realistic source changes ("mutants") to the repository, each of which BREAKS this property while (a) still compiling without new warnings-as-errors and (b) still passing the repository's existing test suite. Think of the kind of bug a maintainer could plausibly introduce in a refactoring or a feature commit: an off-by-one in a bound, a mask applied too early, a state variable not reset, a wrong branch for one encoding, a forgotten case, two sites that each look fine alone. Prefer changes that need something SPECIFIC to manifest (an unusual but legal input, a particular multi-step sequence, a boundary value, a particular CPU/option combination, a particular position in the file) rather than changes that any ordinary use would expose at once. Each mutant should be small (a few lines) and touch different code/mechanisms from the other mutant(s).{avoid_txt}

How to build and test in the worktree (use at most 4 parallel jobs):
  cd {wt} && ./configure >/dev/null && make -j4 >/dev/null 2>&1
  make -k tests > /tmp/{pid}_tests.log 2>&1     # takes ~2 minutes; every line containing PASS is a passing test; there must be no line containing FAIL / "FAILED" that is not also there on the unmodified tree. Count the PASS lines before and after: the count must not drop.
The binaries are {wt}/naken_asm and {wt}/naken_util. `./naken_asm -o out.hex in.asm`, options: -l (listing), -type hex|bin|srec|elf|wdc|uf2, -optimize, -I dir. Read docs/*.md, samples/ and tests/ for the syntax.

For each mutant k (k = 1..{n}) create a directory {wt}/MUT/k containing:
  - patch.diff : the output of `git diff` for exactly this mutant relative to the unmodified worktree HEAD (apply-able with `git apply`), touching only repository source files (not tests, not MUT/).
  - demo.sh : a self-contained bash script taking the path of a built repository tree as $1 (containing naken_asm / naken_util binaries, and build/naken_asm.a if you need to link a small C++ program) that exits 0 when the property holds for your demonstration input and exits 1 when it is violated. It must exit 1 on the mutated tree and exit 0 on the unmodified tree. Put any input files it needs next to it (reference them relative to the script's own directory) and have it write temporary output to a mktemp directory that it removes.
  - README.md : which part of the property is broken, what exactly is needed for the bug to manifest, and why the existing tests do not notice.
Procedure for each mutant: make the edit, rebuild, run the test suite and confirm it still passes, run demo.sh and confirm exit 1, save `git diff -- . ':!MUT' > MUT/k/patch.diff`, then `git checkout -- .` (MUT is untracked and survives), rebuild, and confirm demo.sh exits 0 on the clean tree. Leave the worktree clean (only the untracked MUT directory) when you finish. Do not commit anything. Do not use the network.

In your final answer, list for each mutant: one-line description, files touched, what triggers it, and the confirmation that tests passed and the demo behaves as required. Be honest if you could not achieve something.""")
