#!/usr/bin/env python3
"""Regenerates /verif/MANIFEST.json from the table below (kept valid at all times)."""
import json, os
VERIF = os.path.dirname(os.path.dirname(os.path.abspath(__file__)))
props = [json.loads(l) for l in open(os.path.join(VERIF, "properties.jsonl"))]

# id -> (engine, technique, level text, level note, design ref)
CHECKS = {
 "C04": ("hypothesis+nvserve",
         "exhaustive operator-sequence enumeration + Hypothesis expression ASTs vs independent reference evaluator",
         "Generated-input search: all 11,110 operator sequences of length 1..4 x 3 operand tuples, plus Hypothesis-"
         "generated expression trees (unary chains, parentheses, random spacing, 64-bit boundary operands, every "
         "documented literal spelling) are emitted through .dc64/.dc32 on little- and big-endian CPUs by the real "
         "assembler (sanitized, in-process) and compared byte-for-byte with an independent evaluator; valueless "
         "expressions (literal/computed zero divisors, malformed) must be rejected with a diagnostic in-process and "
         "with exit status 1/no file through the CLI. Finds wrong values, crashes and silent acceptance; cannot prove absence.",
         "Trusted: pyprops/exprmodel.py (precedence climbing, 60 lines) as the meaning of the statement; arithmetic >> and "
         "truncating division are taken as the two's-complement reading; shift counts outside 0..63 and decimal "
         "literals >= 2^63 are excluded as unspecified.", "DESIGN.md 3/C04"),
 "C05": ("hypothesis+nvserve",
         "Hypothesis directive sequences vs independent location-counter/emit interpreter (model-based differential)",
         "Generated-input search: Hypothesis builds sequences of the listed data/location directives (boundary values, "
         "strings with escapes, backward/overlapping .org, 64 KiB page crossings, addresses up to 0xfffffe00, endian "
         "switches, .binfile) for CPUs with 1/2/4/8 bytes per address and both byte orders; the sanitized assembler's "
         "image (address->byte, exact key set) and symbol table must equal those of an independent interpreter of the "
         "same abstract sequence; .db/.dw operands outside their documented range must be rejected with a diagnostic.",
         "Trusted: the Model class in pyprops/c05.py as the reading of docs/directives.md and the statement. Labels/$ are "
         "only placed on address-unit boundaries; 64-bit items do not reference 32-bit symbols; three genuine defects are "
         "listed as open findings and their input classes are excluded/attributed by predicate.", "DESIGN.md 3/C05"),
 "C10": ("hypothesis+nvserve",
         "Hypothesis conditional trees + condition ASTs vs independent branch-selection model; fixed malformed corpus",
         "Generated-input search: Hypothesis builds programs with a prelude of numeric defines/.set/labels and trees "
         "(nesting <= 5, sequences) of .if/.ifdef/.ifndef/.else/.endif in both '.' and '#' spelling whose branches hold "
         "distinct marker bytes, labels, defines, macro definitions and further conditionals, with condition ASTs over "
         "the documented operators. The sanitized assembler's image and symbol table must equal the markers/labels of "
         "exactly the branches an independent evaluator selects (names defined only in untaken branches stay undefined "
         "for later conditions). 21 malformed/unterminated conditionals must be rejected in-process and by the CLI "
         "(exit 1, no output file).",
         "Trusted: ev()/model() in pyprops/c10.py (C semantics: ! > comparison > && > ||). Comparisons are not chained, "
         "'!!' is never generated, conditions never reference later labels (precondition of the statement).",
         "DESIGN.md 3/C10"),
 "C09": ("hypothesis+nvserve",
         "metamorphic: abstract program vs its hand expansion (Hypothesis-generated macro/define/equ/repeat/include structure)",
         "Generated-input search with a metamorphic oracle: Hypothesis builds programs over data directives and "
         "instruction texts of 7 CPUs wrapped in object/function-like defines, equ, .macro with 0..12 typed parameters "
         "(numbers, parenthesised expressions, registers, quoted strings with commas/semicolons, label names), macros "
         "invoking macros, .repeat and .include of generated files; a Python expander performs the substitutions by "
         "hand; image and global label addresses of both programs, assembled by the sanitized assembler from files, "
         "must be identical. Fixed families push nesting to 127 levels (with/without parameters) and 40..3000 "
         "invocations of one macro.",
         "Trusted: the expander in pyprops/c09.py (textual substitution). Parameter names never occur inside strings; "
         ".repeat bodies are position independent; a clean capacity diagnostic is accepted for the growing-argument "
         "chain only.", "DESIGN.md 3/C09"),
 "C11": ("hypothesis+nvserve",
         "Hypothesis scoped programs vs independent symbol resolver; ELF .symtab decoded by own reader",
         "Generated-input search: Hypothesis builds programs of global labels, .scope/.func blocks, shadowing locals, "
         "the same local name in many scopes, forward/backward .dc32 references, .set chains, .export, names up to 201 "
         "characters and (two 'pool' generators) 50-100 KiB of symbol records with pool boundaries inside scope "
         "regions. Every .dc32 word, the whole symbol table and the ELF .symtab (own decoder) must equal what an "
         "independent resolver predicts; generated and fixed duplicate definitions, invisible locals, nested scopes and "
         "bad exports must be rejected with a diagnostic.",
         "Trusted: resolve() in pyprops/c11.py and read_elf() in pyprops/formats.py. .set symbols are referenced only "
         "after assignment; references use .dc32 (no instruction sizing involved).", "DESIGN.md 3/C11"),
 "C02": ("hypothesis+nvserve",
         "exhaustive template x variant enumeration + Hypothesis multi-instruction programs; pass-1/pass-2 differential and marker placement oracle",
         "Generated-input search: for the 47 CPUs with an instruction corpus every instruction text of tests/comparison "
         "(plus hand-written size-dependent forms) has each numeric operand replaced by a label or .set symbol in 19 "
         "canonical one-instruction programs (forward/backward, label values 0, 1..8, <0x80, <0x100, 0x1230, 0x7ffc, "
         "0x12340, .set re-assigned across size boundaries; -optimize for msp430) - an exhaustive enumeration of the "
         "template universe - and Hypothesis composes 1..8 such instructions with 2..8 labels in two .org segments. "
         "Oracle 1 (library interface of tests/symbol_address): label addresses after pass 1 == after pass 2. Oracle 2 "
         "(black box): the unique 8-byte marker after each label lies at the address the symbol table binds to it.",
         "Only accepted programs are judged. Four per-CPU defects are listed as open findings by (cpu, template regex); "
         "those templates are excluded from the Hypothesis part by construction and attributed in the enumeration.",
         "DESIGN.md 3/C02"),
 "C03": ("hypothesis+nvserve",
         "Hypothesis memory images; every writer's file decoded by independent format readers; reload through naken_util",
         "Generated-input search: Hypothesis builds images of 1..10 disjoint segments (odd lengths, gaps to 16 MiB, bases "
         "across the 32-bit space, 64 KiB crossings, .entry_point, .export) for 11 CPUs (bytes-per-address 1/2/4/8, both "
         "byte orders, all three S-record widths, ELF32/64). Each of hex/srec/wdc/uf2/elf/bin written by the sanitized "
         "writers is decoded by readers written from the format specifications and must give exactly the generated "
         "address->byte map (record formats) or carry it with only zero padding (containers), valid checksums/lengths, "
         "entry point and exported symbols; one format per image is also loaded with naken_util and printed back. "
         "amiga/macho writers are run for crash freedom.",
         "Trusted: pyprops/formats.py. UF2 blocks of the fixed RP2350-E10 family are not program bytes; WDC/S-record "
         "terminators are optional; wdc/S2 only judged inside their 24-bit range; byte addresses >= 2^31 on bpa>1 CPUs "
         "excluded (open finding C05-signed-byte-address).", "DESIGN.md 3/C03"),
 "C12": ("hypothesis+nvserve",
         "Hypothesis structured programs +- one corruption at a generated position; CLI observables consistency oracle",
         "Generated-input search: Hypothesis builds structured programs (instructions of 20 CPUs, data, labels, macros, "
         "conditionals, repeats, includes) for all 8 output types and inserts at most one of 37 corruptions at a "
         "generated position (top level, first/last line, taken/untaken conditional, invoked/uninvoked macro, include "
         "file, repeat body). The sanitized CLI runs with a stale file at the -o path; exit status, diagnostics and the "
         "output file must agree (exit 0 <=> no diagnostic and a complete file equal to the in-process image; exit 1 "
         "=> nothing at the path; never a signal), and corruptions invalid by construction on an assembled line must be "
         "rejected.",
         "Diagnostic = stdout line with one of the error phrases used by print_error*/ad-hoc printfs; 'Warning' lines are "
         "not. Structural corruptions inside another block are only held to the consistency oracle.", "DESIGN.md 3/C12"),
 "C13": ("hypothesis+nvserve",
         "metamorphic option/type/file-name variation over the CLI + stateful in-process histories vs fresh process + naken_util asm sessions",
         "Generated-input search with metamorphic and history oracles: (a) structured programs are run through the "
         "sanitized CLI under 4..6 random configurations of {-l,-q,-dump_symbols,-dump_macros} x output type x output "
         "name; decoded images must be identical and identical configurations byte-identical (S0 timestamp masked); (b) "
         "a long-lived in-process worker assembles generated histories of 3..8 assemblies over 2..4 programs (repeats, "
         "listing on/off, failing programs in between) and each result must equal a fresh process's; (c) listing "
         "on/off pairs in one process; (d) naken_util sessions with several 'asm' blocks compared with the "
         "block-by-block fresh assembly.",
         "Trusted: format decoders in pyprops/formats.py. Input file name held constant (ELF embeds it).",
         "DESIGN.md 3/C13"),
 "C01": ("hypothesis+nvserve",
         "round-trip (encode->decode->encode) over generated one-instruction programs and over all decoder renderings + differential against independent MSP430 / RV32I reference encoders",
         "Generated-input search with round-trip and reference-model oracles: (a) every instruction text of tests/comparison "
         "(47 CPUs; the hex column is not used) at 4 load addresses, (b) a fixed sequence of boundary-value mutants of those texts (registers, "
         "immediates at field boundaries, signed/unsigned spellings, PC-relative boundary targets; quick = prefix of thorough), (c) every rendering the "
         "disassembler produces for the leading 16-bit patterns x tails of all 68 CPUs (shared scan with C07): the emitted "
         "bytes are walked by the disassembler (must consume exactly the emitted bytes) and each rendering is assembled "
         "again at its address (must give the same bytes); (d) MSP430 core (27 instructions x 7 source / 4 destination "
         "modes x B/W incl. constant generators) and RV32I (40 instructions) forms generated by Hypothesis with boundary "
         "operands are compared byte-for-byte with pyprops/ref_encoders.py written from the architecture manuals and sent "
         "round the same loop.",
         "Trusted: pyprops/ref_encoders.py. Known assembler/disassembler disagreements are listed per (cpu, kind, mnemonic) in "
         "known_findings.json; anything else is a violation.",
         "DESIGN.md 3/C01, 9"),
 "C06": ("hypothesis+nvserve",
         "metamorphic collision oracle over swept operand values (literal and forward-label spellings) for every instruction template with a numeric or register hole",
         "Generated-input search with a width-agnostic metamorphic oracle: each instruction text of tests/comparison (47 "
         "CPUs) with one numeric literal or register number replaced by a hole is assembled with ~400 values per hole "
         "(0, +-1, +-2^k, +-(2^k+-1) for k<=32, the same offsets around the instruction's address for branch distances, "
         "accepted values +-2^j, and forward-label spellings next to accept/reject boundaries); two accepted values "
         "with identical bytes must be the signed/unsigned spellings of one w-bit field value; different register "
         "numbers must never share an encoding. quick: 20 templates per CPU, thorough: all ~10,000 templates (10.7 M "
         "assemblies).",
         "The oracle needs no per-CPU field table; it only judges collisions (a bijectively wrong field is C01/C07's business). "
         "Known truncating templates are listed per (cpu, template shape).",
         "DESIGN.md 3/C06, 9"),
 "C07": ("hypothesis+nvserve",
         "exhaustive enumeration of leading 16-bit patterns x tails per CPU inside the sanitized harness; round-trip oracle decode->assemble->decode",
         "Generated-input search by exhaustive/structured enumeration with a round-trip oracle: for each of the 68 CPUs "
         "all 65,536 leading half words (quick: every 8th) x zero/ones/keyed tails, and for 32-bit ISAs a coprime "
         "stride of leading half words x 37 structured second half words, are disassembled; every rendering the "
         "assembler accepts at the same address must disassemble to the same rendering again (mnemonic and operands, "
         "numbers by value, signed spellings in 8/16/32 bits equal).",
         "32-bit opcode spaces are sampled through their leading half word; known disagreements are listed per (cpu, "
         "mnemonic, signature); CPUs whose renderings the assembler never accepts are listed as vacuous in the evidence.",
         "DESIGN.md 3/C07, 9"),
 "C14": ("hypothesis+nvserve",
         "differential testing against a reference model: seeded enumeration of opcode x state single steps + Hypothesis-generated -run programs vs ref_msp430 (written from SLAU144)",
         "Generated-input search against a reference model: (a) first opcode words of the 16-bit core (quick: ~120k seeded "
         "field-product samples, thorough: all first words 0x1000..0xffff x 12 states) with boundary-valued registers, "
         "extension words, SR bits and memory operands are single-stepped on a fresh SimulateMsp430 in the sanitized "
         "harness (forked batches, so a crash is attributed to its case); r0-r15, all SR bits and every changed memory "
         "byte are compared with pyprops/ref_msp430.py; (b) Hypothesis-generated straight-line/loop/call/conditional "
         "programs are assembled by naken_asm and run with naken_util -run [-break_io]; final registers, cycle count "
         "and exit status are compared with the reference running the image decoded by an independent hex reader.",
         "Trusted: pyprops/ref_msp430.py (280 lines, from the family user's guide incl. cycle tables 3-14..3-16). Combinations "
         "the guide leaves undefined are skipped and counted in the evidence classes (skipped_undefined.*).",
         "DESIGN.md 3/C14"),
 "C15": ("hypothesis+nvserve",
         "seeded exhaustive enumeration of opcode patterns x generated register/memory states per simulator; oracles: clean return under sanitizers, address-space confinement, run-twice determinism",
         "Generated-input search with invariant and metamorphic (run twice, different order) oracles: for each of the 15 "
         "simulators every leading opcode pattern (8-bit ISAs: all first bytes and all prefixed second bytes, many states "
         "each; 16/32-bit ISAs: quick every 16th, thorough all 65,536 leading half words, both halves for 32-bit words) is "
         "combined with zero/0xff/keyed-random memory, boundary register values set through set_reg, SP at the edges and "
         "PC at 0/mid/top of the address space; one `step` on a fresh simulator in the sanitized harness (forked batches: "
         "a crash or hang is attributed to its case). The step must return, leave no page or changed byte outside the "
         "simulated address space, and a second execution of the same case after different predecessors in the same "
         "process must give the identical return value, registers, dump_registers text and memory diff.",
         "Register values are masked to the architectural width before set_reg; address-space sizes per CPU are listed in "
         "pyprops/c15.py (CFG). The disassembler-length clause holds by construction for 6502/65816 (run() adds "
         "disasm_6502's return value) and is not checked separately.",
         "DESIGN.md 3/C15"),
 "C16": ("libfuzzer",
         "coverage-guided fuzzing (libFuzzer + ASan/UBSan) of the in-process two-pass assembler with a grammar-aware custom mutator; replay tier of committed regression inputs",
         "Generated-input search by coverage-guided fuzzing: harness/fuzz_asm.cpp assembles option byte + source text "
         "in-process (file based, with recursive include files present, listing, fuzzed output type) under ASan + "
         "UBSan(bounds, divide-by-zero, null); 16 independent libFuzzer processes per run (quick 40 s, thorough 600 s "
         "each), seeds from tests/comparison, samples/ and hand-written macro/conditional/include programs, 1 shard "
         "in 4 from an empty corpus; custom mutator: line/token deletion and duplication, token blow-up to 120..20000 "
         "characters, nesting of macros/.if/.scope/parentheses to hundreds of levels, recursive macros/defines/includes, "
         "extreme numbers and addresses. Crash artifacts are re-run 3x before they are reported, time-outs are re-run "
         "through the sanitized CLI with a 60 s limit; committed regression inputs (corpus/C16) are replayed first.",
         "Inputs that request huge output are rejected by the target and counted (rejected_big); inputs matching the "
         "avoid rules of listed known findings are rejected and counted (rejected_known_finding). Only crash-/leak- "
         "artifacts and reproduced time-outs are violations; oom/slow-unit are ignored.",
         "DESIGN.md 3/C16"),
 "C17": ("libfuzzer",
         "coverage-guided fuzzing (libFuzzer + ASan/UBSan) of naken_util's file loaders + disassembly/print and of its main() command loop; structure-aware header-field mutator; replay tier",
         "Generated-input search by coverage-guided fuzzing with two in-process targets. fuzz_util_file: format/CPU "
         "selector + file bytes -> file_read() (forced loader or auto-detection) -> disassembly windows at both ends of "
         "the loaded range, print/print16/print32, symbol dump; seeds are real objects written by naken_asm in all 9 "
         "formats for 6 CPUs; a custom mutator sets aligned 2/4-byte header fields to boundary values (0, 0xffffffff, "
         "0x7fffffff, file length +-2). fuzz_util_cmd: naken_util's main() in-process (interactive with/without a "
         "loaded file, or -disasm) fed scripts over all commands with generated arguments. 16 libFuzzer processes "
         "(10 file, 6 cmd), quick 40 s / thorough 600 s each; crash artifacts re-run 3x, time-outs re-run with 60 s; "
         "committed regression inputs (corpus/C17) replayed first.",
         "Output above 4 MB per input ends the iteration and is counted (output_cutoffs): requested output is not a hang. "
         "Scripts run in single-step mode ('speed 0' forced). The evidence counts files accepted per loader.",
         "DESIGN.md 3/C17"),
 "C18": ("hypothesis+nvserve",
         "Hypothesis structured programs; generic .lst parser checked against the hex output and an own disassembly of the output image",
         "Generated-input search: structured programs (multi-word instructions, data between code, up to four .org "
         "segments of which the later ones start at 16/64 KiB-aligned addresses up to 1 MiB with whole unallocated "
         "pages in between, macros, includes with .list) for 43 CPUs with an instruction corpus are assembled by the sanitized CLI with "
         "-l; the .lst is parsed without per-CPU tables and every instruction line must carry the disassembly (own "
         "decoder call on the OUTPUT image) of exactly the bytes it shows, in a standard grouping; all output bytes "
         "must appear on an instruction line or in the data-section dump with their values; symbol table and Low/High "
         "summary must match.",
         "Any standard grouping/byte order of the instruction's bytes is accepted (no dialect table). Lines whose "
         "decoder length/text is unusable are counted and left to C08; decoders whose text depends on following bytes "
         "are compared with a zero tail as well (counted). .repeat is not generated (not in the property's quantifier).",
         "DESIGN.md 3/C18"),
 "C19": ("hypothesis+nvserve",
         "Hypothesis command histories against a sparse-memory reference model (model-based testing of one naken_util process per history)",
         "Generated-input search: histories of 3..14 write/write16/write32/print/print16/print32/disasm commands with "
         "addresses and values in decimal, 0x, h-suffix and negative spellings, optional -bin -address start-up image, "
         "and for msp430 a write16'd instruction that is then single-stepped, on 10 CPUs (1/2/4/8 bytes per address, "
         "both byte orders, alignments 1/2/4). Every printed value must equal the model in the CPU's byte order and "
         "address units, named ranges must be shown, refusals must follow the alignment rule, disasm opcode columns "
         "must show the written bytes, the stepped instruction must load the written immediate, and a final sweep "
         "proves untouched addresses unchanged.",
         "Trusted: Model in pyprops/c19.py. A range a-b must show at least a..b-1. ebpf disasm lines are excluded "
         "(range tiling defect, C08). A session that exceeds 20 s is inconclusive, not a violation.", "DESIGN.md 3/C19"),
 "C20": ("hypothesis+nvserve",
         "Hypothesis call graphs over generated ELF32 objects / ar archives (own writer) vs a transitive-closure placement model",
         "Generated-input search: Hypothesis draws call graphs over 2..8 functions in 1..3 ELF32 relocatable objects "
         "written by an own generator (R_MIPS_26 relocations, junk sections with look-alike names, both byte orders), "
         "given as .o files or as an ar archive with a symbol table, and a mips program at a generated .org calling a "
         "subset. From the hex image and the listing symbols of the sanitized CLI run: every function of the transitive "
         "closure is present once at its symbol address with the object's bytes, every jal (program and imported code) "
         "targets the final address, nothing else is in the image, unreferenced functions are absent; unresolved "
         "symbols, non-ELF .o, non-archive .a and missing files must exit 1.",
         "Trusted: build_obj/build_ar/closure in pyprops/c20.py. Big-endian objects are unsupported by the importer: a "
         "clean rejection (exit 1, no file) is accepted for them. Only global FUNC symbols with sizes and R_MIPS_26 "
         "against globals are generated.", "DESIGN.md 3/C20"),
 "C08": ("hypothesis+nvserve",
         "exhaustive in-harness enumeration of all leading 16-bit patterns x 3 tails per CPU + seeded range windows and whole-image runs",
         "Generated-input search (enumeration as the degenerate generator): for each of the 68 CPUs all 65,536 leading "
         "16-bit patterns x 3 tails are decoded in forked children of the sanitized worker into an exactly-128-byte "
         "heap buffer; every decode must terminate, be NUL-terminated, have unit <= length <= L_max and a multiple of "
         "the unit, be deterministic, and not change when all bytes after it (for defined encodings) or before it "
         "change. 25/400 seeded windows per CPU are run through disasm_range_<cpu> in a forked child with a time limit "
         "and the printed address column must be exactly the chain of decoder lengths up to a chain-aligned end; "
         "whole images crossing 64 KiB pages are run through 'naken_util -disasm' and every loaded byte must be shown.",
         "L_max table in pyprops/c08.py. Locality is not demanded of an encoding the decoder itself reports as undefined. "
         "tms1000/tms1100 print a chip-specific address notation (range part not covered). Nine decoder-level defects are "
         "listed as open findings by exact leading-pattern sets.", "DESIGN.md 3/C08"),
}

# second session: what each check gained (appended to the level text; DESIGN.md 4.1 / 9 "Second session")
ADDENDA = {
 "C01": " Operand mutants include negative boundary values; known disagreements of the re-encoding kind are keyed by how the re-encoding differs (shorter/longer/same length). The shared decoder scan explores all 256 values of a third/fourth byte that selects the instruction (byte-oriented ISAs) and structured extension words for 16-bit ISAs.",
 "C04": " Operand contexts: expressions steered to a target value are also written into .org/.resb/.set/.db/.dw lists/equ and instruction immediates with known encodings (8 CPUs), and into the numeric hole of corpus templates of every CPU, where the statement must assemble like the same statement with the plain literal.",
 "C05": " Range checks are exercised through literals, expressions, .set, equ, backward/forward labels and forward label differences; the worker cross-checks Memory::read8 (the accessor of every writer) against the stored bytes.",
 "C06": " Templates also come from the disassembler's accepted renderings (one per mnemonic and operand shape) for all 68 CPUs, including the 23 without a comparison file.",
 "C07": " Quick stride is odd (7); byte-oriented ISAs: all 256 values of a third/fourth byte that selects the instruction; 16-bit ISAs: structured extension words; a hex literal printed with d digits is compared as a 4d-bit field (0x00ff is not -1).",
 "C08": " Whole-image layouts are generated (1..5 segments, lone units, page crossings, far pages, ascending / descending / per-unit record order).",
 "C09": " A bulk family defines 1,500..8,000 equ/.define/#define(p)/.macro names (several 32 KiB pools) and uses early, middle and late ones.",
 "C10": " Besides the fixed list, ONE generated structural corruption (missing .endif/.if, second .else, extra .endif, stray directive at top level) is applied to a generated tree at a generated conditional and must be rejected.",
 "C11": " CPUs: msp430, avr8 (word addressed) and arm64 (ELFCLASS64).",
 "C12": " Every CPU with a corpus (47) is generated; include files are also pulled in from inside open conditionals.",
 "C13": " Histories include stress programs (60..260 forward references inside unary/parenthesised expressions, macro calls and conditionals).",
 "C14": " -run programs include reti idioms (inline and inside a called subroutine).",
 "C15": " For 6502/65816/z80 the program counter after a non-branching step must be the address of the next disassembled instruction; four patterns per mnemonic the disassembler knows are always stepped; a nondeterministic step is traced to the earlier step that causes it.",
 "C16": " Structured part (Hypothesis + sanitized CLI, every shard): one token repeated up to 70,000 times in 35 syntactic positions, bytes at the top of the address space x output types x -l, nesting combinations of conditionals/includes/macros, boundary operands in templates of all 68 CPUs; the process must end (40 s, confirmed 150 s) with status 0/1 and no sanitizer report.",
 "C17": " Session part (Hypothesis + sanitized CLI, every shard): generated command lines (all options with/without their argument, files of every kind) and scripted sessions over all commands with edge addresses and ranges of known span; the process must end by itself with status 0/1, no sanitizer report and output bounded by the requested spans.",
 "C19": " Argument-less disasm (whole image) must list every complete instruction word that is in memory.",
 "C20": " Undefined symbols are NOTYPE or FUNC; archives also hold non-object members of odd and even size.",
}
TECH = {
 "C16": "coverage-guided fuzzing (libFuzzer + ASan/UBSan) of in-process two-pass assembly, plus Hypothesis-generated structured stress inputs (amplification / extreme addresses / nesting / boundary operands) through the sanitized CLI",
 "C17": "coverage-guided fuzzing (libFuzzer + ASan/UBSan) of the file loaders and the command loop, plus Hypothesis-generated command lines and scripted sessions through the sanitized CLI with an output-bound oracle",
}

NOT_YET = "check not built yet (work in progress; see DESIGN.md section 3)"

m = {
 "version": 1,
 "setup_cmd": "python3 nvbuild.py nvserve naken_asm_san naken_util_san",
 "hooks": {"guard": "NAKEN_ASM_VERIF",
           "enable": "-DNAKEN_ASM_VERIF is passed to every sanitized out-of-tree build by nvbuild.py; no source hook exists in /repo",
           "baseline_off_cmd": "python3 /verif/tools/baseline_check.py /repo",
           "source_commits": [], "add_only": True},
 "engines": [
   {"name": "hypothesis+nvserve", "path": "pyprops/", "serves_properties": sorted(k for k, v in CHECKS.items() if v[0] == "hypothesis+nvserve"),
    "kind_free_text": "Hypothesis (python3-vt) generators, reference models and decoders in Python; the code under test runs in-process in sanitized nvserve workers or as sanitized CLI binaries"},
   {"name": "libfuzzer", "path": "harness/", "serves_properties": sorted(k for k, v in CHECKS.items() if v[0] == "libfuzzer"),
    "kind_free_text": "libFuzzer targets (harness/fuzz_*.cpp, clang -fsanitize=fuzzer,address + UBSan subset) linked against the sanitized library build, driven and triaged by pyprops/c16.py / c17.py"},
 ],
 "checks": [], "not_applicable": [],
 "notes": "All checks: ./check <ID> --tier quick|thorough ; VERIF_SEED selects the random stream; fixes made to /repo are listed in known_findings.json ('fixed')."
}
PENDING = set(open('/verif/tools/pending.txt').read().split()) if __import__('os').path.exists('/verif/tools/pending.txt') else set()
for p in props:
    pid = p["id"]
    if pid in CHECKS and pid not in PENDING:
        eng, tech, text, note, ref = CHECKS[pid]
        text = text + ADDENDA.get(pid, "")
        tech = TECH.get(pid, tech)
        m["checks"].append({
            "property_id": pid,
            "quick_cmd": "./check %s --tier quick" % pid,
            "thorough_cmd": "./check %s --tier thorough" % pid,
            "evidence_file": "evidence/%s.json" % pid,
            "replay_cmd_template": "./check %s --replay {path}" % pid,
            "engine": eng,
            "level_claimed": {"category": "exploration", "text": text, "design_ref": ref},
            "level_note": note,
            "technique": tech})
    else:
        m["not_applicable"].append({"property_id": pid, "reason": NOT_YET})
json.dump(m, open(os.path.join(VERIF, "MANIFEST.json"), "w"), indent=1)
print("checks:", [c["property_id"] for c in m["checks"]])
