#!/usr/bin/env python3
"""import_mutant.py <prop> <k> <src dir> "<needs>" : copy a confirmed mutant into /verif/seeded/<prop>-<k>/"""
import sys, os, shutil, json, subprocess, re
prop, k, src, needs = sys.argv[1:5]
dst = "/verif/seeded/%s-%s" % (prop, k)
os.makedirs(dst, exist_ok=True)
for f in os.listdir(src):
    if f in ("baseline.txt",):
        continue
    p = os.path.join(src, f)
    if os.path.isfile(p):
        shutil.copy(p, dst)
log = ""
for l in open("/tmp/confirm_%s.log" % prop):
    if l.startswith("RESULT %s " % src):
        log = l.strip()
head = subprocess.run("git -C /repo rev-parse --short HEAD", shell=True, capture_output=True, text=True).stdout.strip()
meta = {"property": prop, "id": "%s-%s" % (prop, k), "breaks": open(os.path.join(src, "README.md")).read()[:1500],
        "needs_to_manifest": needs,
        "confirmed": {"at_repo_commit": head, "what_i_ran": "tools/confirm_mutant.sh <scratch worktree> <mutant dir>: "
                      "git apply --check, make, repository test suite vs BASELINE.json (tools/baseline_check.py), "
                      "demo.sh on mutated tree (expect 1) and on clean tree (expect 0)", "result": log},
        "detected_by": None}
json.dump(meta, open(os.path.join(dst, "meta.json"), "w"), indent=1)
print("imported", dst, log)
