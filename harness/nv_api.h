// Thin in-process API over the repository's library, shared by nvserve, nvx
// and the libFuzzer targets.  Everything here goes through existing public
// interfaces of the code under test (AsmContext, cpu_list, disasm_*,
// Simulate, file_write); no source hook is required.
#ifndef NV_API_H
#define NV_API_H

#include <stdint.h>
#include <string>
#include <vector>
#include <map>

#include "core/AsmContext.h"
#include "core/cpu_list.h"
#include "core/Memory.h"

typedef int (*nv_disasm_t)(Memory *, uint32_t, char *, int, int, int *, int *);

struct NvCpu
{
  const char *name;
  int index;            // index in cpu_list
  nv_disasm_t disasm;
  int unit;             // bytes per addressable unit (bytes_per_address)
  int align;            // cpu_list alignment
  int endian;
  uint32_t flags;
};

int nv_cpu_count();
const NvCpu *nv_cpu(int i);
const NvCpu *nv_cpu_by_name(const char *name);

struct NvSym
{
  std::string name;
  uint32_t address;
  uint32_t scope;
  bool exported;
};

struct NvByte { uint8_t data; int8_t kind; };  // kind: 0 code, 1 DL_DATA, 2 DL_NO_CG

struct NvOpts
{
  NvOpts() : optimize(false), list(false), quiet(true), dump_symbols(false),
             dump_macros(false), file_type(-1), org(-1), pass1_only(false),
             raw_util_style(false), max_dense_span(0), symdebug(false) {}
  std::string srcfile;         // if set: source is read from this file with tokens_open_file() (needed for .include)
  bool optimize, list, quiet, dump_symbols, dump_macros;
  int file_type;               // FILE_TYPE_* to also run file_write(), -1 none
  std::string outfile;
  std::vector<std::string> include_paths;
  std::string cpu;             // if set: set_cpu() before each pass (naken_util style)
  long org;                    // if >=0: set_org before each pass (naken_util style)
  bool pass1_only;
  bool raw_util_style;         // mimic main/naken_util.cpp assemble_code()
  long max_dense_span;         // if >0: skip file_write of bin/elf/amiga/macho/uf2 images spanning more bytes (fuzzing)
  bool symdebug;               // pass 2 with symbols.set_debug() instead of lock() (tests/symbol_address interface)
};

struct NvResult
{
  // phase: 0 finished both passes + link (+write); 1 failed in pass 1;
  // 2 failed in pass 2; 3 library called exit(); 4 link failed
  int phase;
  int exit_code;               // what the CLI would return (0/1) or exit() arg
  bool exit_called;
  std::string out;             // everything the library printed to stdout
  std::string listing;         // list file content (if opts.list)
  std::vector<NvSym> sym1, sym2;
  std::map<uint32_t, NvByte> image;
  uint32_t low, high;
  int endian, bpa, cpu_index;
  int instruction_count, code_count, data_count;
  // first address whose Memory::read8() (the accessor every output writer uses) differs from the stored byte, or -1
  long long read8_bad;
};

// Two-pass assembly of a NUL-free source text, following main/naken_asm.cpp.
void nv_assemble(const std::string &source, const NvOpts &opts, NvResult &r);

// One disassembly into an exactly-`buflen`-byte heap buffer (ASan red zones).
// Returns the decoder's return value; text receives the string.
int nv_disasm(const NvCpu *cpu, Memory *mem, uint32_t address, std::string &text,
              int *cmin = 0, int *cmax = 0);

// stdout capture (library code prints with printf/puts).
void nv_capture_begin();
std::string nv_capture_end();

// exit() interception: run fn(); returns -1 if it returned normally, else the
// status passed to exit().
#include <setjmp.h>
extern jmp_buf nv_exit_jmp;
extern volatile int nv_exit_armed;
extern volatile int nv_exit_status;

#define NV_CATCH_EXIT(stmt, status_var)            \
  do {                                             \
    nv_exit_armed = 1;                             \
    if (setjmp(nv_exit_jmp) == 0) { stmt; status_var = -1; } \
    else { status_var = nv_exit_status; }          \
    nv_exit_armed = 0;                             \
  } while (0)

#endif
