#include <stdio.h>
#include <stdlib.h>
#include <string.h>
#include <unistd.h>

#include "nv_api.h"

#include "core/directives_include.h"
#include "core/tokens.h"
#include "fileio/file.h"

#include "disasm/1802.h"
#include "disasm/4004.h"
#include "disasm/6502.h"
#include "disasm/65816.h"
#include "disasm/6800.h"
#include "disasm/68000.h"
#include "disasm/6809.h"
#include "disasm/68hc08.h"
#include "disasm/8008.h"
#include "disasm/8048.h"
#include "disasm/8051.h"
#include "disasm/86000.h"
#include "disasm/agc.h"
#include "disasm/arc.h"
#include "disasm/arm.h"
#include "disasm/arm64.h"
#include "disasm/avr8.h"
#include "disasm/cell.h"
#include "disasm/copper.h"
#include "disasm/cp1610.h"
#include "disasm/dotnet.h"
#include "disasm/dspic.h"
#include "disasm/ebpf.h"
#include "disasm/epiphany.h"
#include "disasm/f100_l.h"
#include "disasm/f8.h"
#include "disasm/java.h"
#include "disasm/lc3.h"
#include "disasm/m8c.h"
#include "disasm/mips.h"
#include "disasm/msp430.h"
#include "disasm/pdk13.h"
#include "disasm/pdk14.h"
#include "disasm/pdk15.h"
#include "disasm/pdk16.h"
#include "disasm/pdp11.h"
#include "disasm/pdp8.h"
#include "disasm/pic14.h"
#include "disasm/pic18.h"
#include "disasm/powerpc.h"
#include "disasm/propeller.h"
#include "disasm/propeller2.h"
#include "disasm/ps2_ee_vu.h"
#include "disasm/riscv.h"
#include "disasm/sh4.h"
#include "disasm/sparc.h"
#include "disasm/stm8.h"
#include "disasm/super_fx.h"
#include "disasm/sweet16.h"
#include "disasm/thumb.h"
#include "disasm/tms1000.h"
#include "disasm/tms340.h"
#include "disasm/tms9900.h"
#include "disasm/unsp.h"
#include "disasm/webasm.h"
#include "disasm/xtensa.h"
#include "disasm/z80.h"

// defined in disasm/msp430.cpp but not declared in its header
int disasm_msp430x(Memory *memory, uint32_t address, char *instruction, int length,
                   int flags, int *cycles_min, int *cycles_max);

// ---------------------------------------------------------------- exit wrap
jmp_buf nv_exit_jmp;
volatile int nv_exit_armed = 0;
volatile int nv_exit_status = 0;

extern "C" void __real_exit(int status);
extern "C" void __wrap_exit(int status)
{
  if (nv_exit_armed)
  {
    nv_exit_armed = 0;
    nv_exit_status = status;
    longjmp(nv_exit_jmp, 1);
  }
  __real_exit(status);
}

// ------------------------------------------------------------ stdout capture
static FILE *real_stdout = NULL;
static FILE *cap_file = NULL;
static char *cap_buf = NULL;
static size_t cap_len = 0;

void nv_capture_begin()
{
  if (cap_file != NULL) { return; }
  real_stdout = stdout;
  cap_buf = NULL;
  cap_len = 0;
  cap_file = open_memstream(&cap_buf, &cap_len);
  stdout = cap_file;
}

std::string nv_capture_end()
{
  std::string s;
  if (cap_file == NULL) { return s; }
  fflush(cap_file);
  stdout = real_stdout;
  fclose(cap_file);
  cap_file = NULL;
  if (cap_buf != NULL)
  {
    s.assign(cap_buf, cap_len);
    free(cap_buf);
    cap_buf = NULL;
  }
  return s;
}

// ----------------------------------------------------------------- cpu table
struct RangeMap { disasm_range_t range; nv_disasm_t one; };

#define RM(x) { disasm_range_##x, disasm_##x }
static RangeMap range_map[] =
{
  RM(1802), RM(4004), RM(6502), RM(65816), RM(6800), RM(68000), RM(6809),
  RM(68hc08), RM(8008), RM(8048), RM(8051), RM(86000), RM(agc), RM(arc),
  RM(arm), RM(arm64), RM(avr8), RM(cell), RM(copper), RM(cp1610), RM(dotnet),
  RM(dspic), RM(ebpf), RM(epiphany), RM(f100_l), RM(f8), RM(java), RM(lc3),
  RM(m8c), RM(mips), RM(msp430), RM(msp430x), RM(pdk13), RM(pdk14), RM(pdk15),
  RM(pdk16), RM(pdp11), RM(pdp8), RM(pic14), RM(pic18), RM(powerpc),
  RM(propeller), RM(propeller2), RM(ps2_ee_vu), RM(riscv), RM(sh4), RM(sparc),
  RM(stm8), RM(super_fx), RM(sweet16), RM(thumb), RM(tms1000), RM(tms1100),
  RM(tms340), RM(tms9900), RM(unsp), RM(webasm), RM(xtensa), RM(z80),
  { NULL, NULL }
};

static std::vector<NvCpu> cpus;

static void cpu_init()
{
  if (!cpus.empty()) { return; }
  for (int n = 0; cpu_list[n].name != NULL; n++)
  {
    NvCpu c;
    c.name = cpu_list[n].name;
    c.index = n;
    c.disasm = NULL;
    for (int i = 0; range_map[i].range != NULL; i++)
    {
      if (range_map[i].range == cpu_list[n].disasm_range)
      {
        c.disasm = range_map[i].one;
        break;
      }
    }
    c.unit = cpu_list[n].bytes_per_address;
    c.align = cpu_list[n].alignment;
    c.endian = cpu_list[n].default_endian;
    c.flags = cpu_list[n].flags;
    cpus.push_back(c);
  }
}

int nv_cpu_count() { cpu_init(); return (int)cpus.size(); }
const NvCpu *nv_cpu(int i) { cpu_init(); return &cpus[i]; }
const NvCpu *nv_cpu_by_name(const char *name)
{
  cpu_init();
  for (size_t i = 0; i < cpus.size(); i++)
  {
    if (strcasecmp(cpus[i].name, name) == 0) { return &cpus[i]; }
  }
  return NULL;
}

int nv_disasm(const NvCpu *cpu, Memory *mem, uint32_t address, std::string &text,
              int *cmin, int *cmax)
{
  // every caller in the repository passes a 128 byte buffer
  char *buf = (char *)malloc(128);
  memset(buf, 0x7e, 128);
  int a = 0, b = 0;
  int n = cpu->disasm(mem, address, buf, 128, cpu->flags, &a, &b);
  size_t len = strnlen(buf, 128);
  text.assign(buf, len);
  if (len >= 128) { text += "<<UNTERMINATED>>"; }
  free(buf);
  if (cmin) { *cmin = a; }
  if (cmax) { *cmax = b; }
  return n;
}

// ------------------------------------------------------------------ assemble
static void snapshot_symbols(AsmContext *ctx, std::vector<NvSym> &out)
{
  SymbolsIter iter;
  int guard = 0;
  while (ctx->symbols.iterate(&iter) != -1)
  {
    NvSym s;
    s.name = iter.name;
    s.address = iter.address;
    s.scope = iter.scope;
    s.exported = iter.flag_export;
    out.push_back(s);
    if (++guard > 2000000) { break; }
  }
}

static void snapshot_image(AsmContext *ctx, NvResult &r)
{
  r.read8_bad = -1;
  for (MemoryPage *page = ctx->memory.pages; page != NULL; page = page->next)
  {
    for (int i = 0; i < PAGE_SIZE; i++)
    {
      int d = page->debug_line[i];
      if (d == DL_EMPTY) { continue; }
      NvByte b;
      b.data = page->bin[i];
      b.kind = d == DL_DATA ? 1 : (d == DL_NO_CG ? 2 : 0);
      r.image[page->address + i] = b;
      if (r.read8_bad < 0 && ctx->memory.read8(page->address + i) != page->bin[i])
      {
        r.read8_bad = (long long)page->address + i;
      }
    }
  }
  r.low = ctx->memory.low_address;
  r.high = ctx->memory.high_address;
  r.endian = ctx->memory.endian;
  r.bpa = ctx->bytes_per_address;
  r.cpu_index = ctx->cpu_list_index;
  r.instruction_count = ctx->instruction_count;
  r.code_count = ctx->code_count;
  r.data_count = ctx->data_count;
}

struct AsmJob
{
  AsmContext *ctx;
  const NvOpts *opts;
  NvResult *r;
  char *list_buf;
  size_t list_len;
};

// Mirrors main/naken_asm.cpp main() from "Pass 1..." on (or
// main/naken_util.cpp assemble_code() when opts.raw_util_style).
static void run_job(AsmJob *job, const char *source)
{
  AsmContext *ctx = job->ctx;
  const NvOpts &opts = *job->opts;
  NvResult &r = *job->r;
  int error_flag;

  ctx->quiet_output = opts.quiet;
  ctx->dump_symbols = opts.dump_symbols;
  ctx->dump_macros = opts.dump_macros;
  ctx->optimize = opts.optimize;

  if (opts.raw_util_style)
  {
    ctx->init();
    ctx->set_cpu(opts.cpu.c_str());
    ctx->set_org(opts.org < 0 ? 0 : opts.org);
    ctx->pass = 1;
    tokens_open_buffer(ctx, source);
    tokens_reset(ctx);
    if (ctx->assemble() != 0) { r.phase = 1; r.exit_code = 1; return; }
    snapshot_symbols(ctx, r.sym1);
    ctx->pass = 2;
    ctx->init();
    ctx->set_cpu(opts.cpu.c_str());
    ctx->set_org(opts.org < 0 ? 0 : opts.org);
    if (ctx->assemble() != 0) { r.phase = 2; r.exit_code = 1; return; }
    r.phase = 0;
    r.exit_code = 0;
    return;
  }

  for (size_t i = 0; i < opts.include_paths.size(); i++)
  {
    include_add_path(ctx, opts.include_paths[i].c_str());
  }
  include_add_path(ctx, "include");

  if (!opts.srcfile.empty())
  {
    // like main/naken_asm.cpp: the source is a file (.include swaps tokens.in)
    if (tokens_open_file(ctx, opts.srcfile.c_str()) != 0)
    {
      printf("Error: Couldn't open %s for reading.\n\n", opts.srcfile.c_str());
      r.phase = 1;
      r.exit_code = 1;
      return;
    }
  }
  else
  {
    tokens_open_buffer(ctx, source);
    ctx->tokens.filename = "input.asm";
  }

  if (opts.list)
  {
    ctx->list = open_memstream(&job->list_buf, &job->list_len);
  }

  ctx->init();
  error_flag = ctx->assemble();

  if (error_flag == 0 && ctx->link() != 0) { error_flag = 1; r.phase = 4; }

  snapshot_symbols(ctx, r.sym1);

  if (error_flag != 0)
  {
    if (r.phase != 4) { r.phase = 1; }
    r.exit_code = 1;
    return;
  }

  if (opts.pass1_only) { r.phase = 0; r.exit_code = 0; return; }

  if (opts.symdebug)
  {
    // interface of tests/symbol_address: re-definitions overwrite
    ctx->symbols.set_debug();
  }
  else
  {
    ctx->symbols.lock();
  }
  ctx->symbols.scope_reset();
  ctx->pass = 2;
  ctx->init();
  if (opts.list) { ctx->write_list_file = 1; }

  error_flag = ctx->assemble();

  if (error_flag != 0) { r.phase = 2; r.exit_code = 1; return; }
  if (ctx->link() != 0) { r.phase = 4; r.exit_code = 1; return; }

  if (opts.file_type >= 0 && !opts.outfile.empty())
  {
    bool sparse = opts.file_type == FILE_TYPE_HEX || opts.file_type == FILE_TYPE_SREC || opts.file_type == FILE_TYPE_WDC;
    uint64_t span = ctx->memory.high_address >= ctx->memory.low_address ?
                    (uint64_t)ctx->memory.high_address - ctx->memory.low_address + 1 : 0;
    if (sparse || opts.max_dense_span <= 0 || span <= (uint64_t)opts.max_dense_span)
    {
      file_write(opts.outfile.c_str(), ctx, opts.file_type);
    }
  }

  r.phase = 0;
  r.exit_code = 0;
}

void nv_assemble(const std::string &source, const NvOpts &opts, NvResult &r)
{
  r.phase = -1;
  r.exit_code = -1;
  r.exit_called = false;
  r.low = 0xffffffff;
  r.high = 0;
  r.endian = 0;
  r.bpa = 1;
  r.cpu_index = -1;
  r.instruction_count = r.code_count = r.data_count = 0;
  r.read8_bad = -1;

  AsmJob job;
  job.ctx = new AsmContext();
  job.opts = &opts;
  job.r = &r;
  job.list_buf = NULL;
  job.list_len = 0;

  // The source must outlive the context (tokens keep a pointer).
  char *src = strdup(source.c_str());

  nv_capture_begin();
  int status;
  NV_CATCH_EXIT(run_job(&job, src), status);
  if (status != -1)
  {
    r.phase = 3;
    r.exit_called = true;
    r.exit_code = status;
  }
  else
  {
    // what main() prints at the end (Program Info) - keeps print paths alive
    job.ctx->print_info(stdout);
  }
  r.out = nv_capture_end();

  snapshot_symbols(job.ctx, r.sym2);
  snapshot_image(job.ctx, r);

  if (job.ctx->list != NULL)
  {
    fclose(job.ctx->list);
    job.ctx->list = NULL;
    if (job.list_buf != NULL)
    {
      r.listing.assign(job.list_buf, job.list_len);
      free(job.list_buf);
    }
  }

  if (job.ctx->tokens.in != NULL)
  {
    fclose(job.ctx->tokens.in);
    job.ctx->tokens.in = NULL;
  }

  delete job.ctx;
  free(src);
}
