// fuzz_asm: libFuzzer target for C16.  One input = 1 option byte + source text.  The source is written to
// input.asm in a private scratch directory (so .include / .binfile work, including two recursive include files
// that are always present) and assembled in-process by the same two passes as main/naken_asm.cpp, with listing
// to a memstream and an output file of a type chosen by the option byte.
//
// Oracle (inside the target): no sanitizer report / signal (libFuzzer), an intercepted exit() must carry status
// 1.  Failures for which the library printed nothing are counted (main() still prints '*** Failed ***').
// Inputs that *request* huge output (.repeat/.resb/... with large literals) are rejected and counted.
#include <stdio.h>
#include <stdlib.h>
#include <string.h>
#include <stdint.h>
#include <unistd.h>
#include <sys/stat.h>
#include <string>
#include <vector>

#include "nv_api.h"
#include "fileio/file.h"

extern "C" size_t LLVMFuzzerMutate(uint8_t *Data, size_t Size, size_t MaxSize);

static char scratch[256];
static long n_exec, n_rejected_big, n_pass2, n_ok, n_diag, n_exit, n_silent;
static const char *stats_path;
struct Avoid { std::string substr; int token_len; };
static std::vector<Avoid> avoid;   // inputs that trigger listed known findings are skipped and counted
static long n_rejected_known;

static void dump_stats()
{
  if (stats_path == NULL) { return; }
  FILE *f = fopen(stats_path, "w");
  if (f == NULL) { return; }
  fprintf(f, "exec %ld\nrejected_big %ld\nreached_pass2 %ld\nassembled_ok %ld\ndiagnosed %ld\nexit_called %ld\nfailed_without_library_message %ld\nrejected_known_finding %ld\n",
          n_exec, n_rejected_big, n_pass2, n_ok, n_diag, n_exit, n_silent, n_rejected_known);
  fclose(f);
}

static void write_file(const char *name, const char *text)
{
  FILE *f = fopen(name, "w");
  if (f == NULL) { return; }
  fputs(text, f);
  fclose(f);
}

extern "C" int LLVMFuzzerInitialize(int *argc, char ***argv)
{
  const char *base = getenv("NV_FUZZ_TMP");
  if (base == NULL) { base = "/dev/shm"; }
  snprintf(scratch, sizeof(scratch), "%s/nvfuzz_asm.%d", base, (int)getpid());
  mkdir(scratch, 0700);
  if (chdir(scratch) != 0) { perror("chdir"); _exit(7); }
  write_file("self.inc", "; includes itself\n.include \"self.inc\"\n");
  write_file("ping.inc", ".include \"pong.inc\"\n");
  write_file("pong.inc", ".include \"ping.inc\"\n");
  write_file("ok.inc", "VALUE equ 5\n.define TEN 10\n.macro INCM(a)\n  .db a\n.endm\n");
  write_file("data.bin", "0123456789abcdef");
  stats_path = getenv("NV_FUZZ_STATS");
  if (getenv("NV_FUZZ_AVOID") != NULL)
  {
    FILE *f = fopen(getenv("NV_FUZZ_AVOID"), "r");
    char line[1024];
    while (f != NULL && fgets(line, sizeof(line), f) != NULL)
    {
      size_t n = strlen(line);
      while (n > 0 && (line[n - 1] == '\n' || line[n - 1] == '\r')) { line[--n] = 0; }
      char *tab = strchr(line, '\t');
      if (n > 0 && tab != NULL)
      {
        Avoid a;
        a.substr.assign(line, tab - line);
        a.token_len = atoi(tab + 1);
        avoid.push_back(a);
      }
    }
    if (f != NULL) { fclose(f); }
  }
  atexit(dump_stats);
  return 0;
}

static bool word_at(const std::string &l, size_t i, const char *w)
{
  size_t n = strlen(w);
  return strncasecmp(l.c_str() + i, w, n) == 0;
}

// Work proportional to the *requested* output is not a hang: reject sources that ask for a lot of output.
static bool requests_huge_output(const std::string &src)
{
  static const char *words[] = { "repeat", "rept", "resb", "resw", "fill", "ds8", "ds16", "ds32", "ds", "dup",
                                 "align", "skip", "space", "blk", "dcb", "big_endian_fill", "binfile", NULL };
  int repeats = 0;
  size_t pos = 0;
  while (pos < src.size())
  {
    size_t nl = src.find('\n', pos);
    if (nl == std::string::npos) { nl = src.size(); }
    std::string line = src.substr(pos, nl - pos);
    pos = nl + 1;
    bool hit = false;
    for (size_t i = 0; i < line.size() && !hit; i++)
    {
      for (int k = 0; words[k] != NULL; k++)
      {
        if (word_at(line, i, words[k])) { hit = true; if (k < 2) { repeats++; } break; }
      }
    }
    if (!hit) { continue; }
    // any number with more than 3 significant characters (or an expression operator) on such a line
    int digits = 0;
    for (size_t i = 0; i < line.size(); i++)
    {
      char c = line[i];
      if (isalnum((unsigned char)c)) { digits++; } else { digits = 0; }
      if (digits > 3 && isdigit((unsigned char)line[i - digits + 1])) { return true; }
      if (c == '*' || c == '<' || c == '+' || c == '-' || c == '~' || c == '^' || c == '|') { return true; }
    }
  }
  return repeats > 2;
}

extern "C" int LLVMFuzzerTestOneInput(const uint8_t *data, size_t size)
{
  if (size < 2) { return 0; }
  n_exec++;
  uint8_t opt = data[0];
  std::string src((const char *)data + 1, size - 1);
  if (src.find('\0') != std::string::npos) { src = src.substr(0, src.find('\0')); }
  if (requests_huge_output(src)) { n_rejected_big++; return 0; }
  if (!avoid.empty())
  {
    // longest run of characters that the tokenizer keeps in one token
    int longest = 0, run = 0;
    for (size_t i = 0; i < src.size(); i++)
    {
      char c = src[i];
      if (c == ' ' || c == '\t' || c == '\n' || c == ',' || c == '(' || c == ')') { run = 0; } else { run++; }
      if (run > longest) { longest = run; }
    }
    std::string lower = src;
    for (size_t i = 0; i < lower.size(); i++) { lower[i] = tolower((unsigned char)lower[i]); }
    for (size_t i = 0; i < avoid.size(); i++)
    {
      if (longest < avoid[i].token_len) { continue; }
      // "a|b": every part must occur
      bool all = true;
      size_t pos = 0;
      const std::string &subs = avoid[i].substr;
      while (pos <= subs.size() && all)
      {
        size_t bar = subs.find('|', pos);
        if (bar == std::string::npos) { bar = subs.size(); }
        if (bar > pos && lower.find(subs.substr(pos, bar - pos)) == std::string::npos) { all = false; }
        pos = bar + 1;
      }
      if (all) { n_rejected_known++; return 0; }
    }
  }

  FILE *f = fopen("input.asm", "wb");
  if (f == NULL) { return 0; }
  fwrite(src.data(), 1, src.size(), f);
  fclose(f);

  NvOpts o;
  o.srcfile = "input.asm";
  o.optimize = (opt & 1) != 0;
  o.list = (opt & 2) != 0;
  o.dump_symbols = (opt & 4) != 0;
  o.dump_macros = (opt & 8) != 0;
  static const int types[] = { -1, FILE_TYPE_HEX, FILE_TYPE_BIN, FILE_TYPE_ELF, FILE_TYPE_SREC, FILE_TYPE_WDC,
                               FILE_TYPE_AMIGA, FILE_TYPE_TI_TXT };
  o.file_type = types[(opt >> 4) & 7];
  o.outfile = "out.bin";
  o.max_dense_span = 1 << 22;   // a dense image of a 4 GiB span is requested output, not a hang
  o.include_paths.push_back(".");
  NvResult r;
  nv_assemble(src, o, r);

  if (r.phase == 0 || r.phase == 2) { n_pass2++; }
  if (r.exit_called)
  {
    n_exit++;
    if (r.exit_code != 1)
    {
      fprintf(stderr, "C16-ORACLE: exit(%d) called by the assembler library\n", r.exit_code);
      dump_stats();
      __builtin_trap();
    }
  }
  if (r.phase == 0)
  {
    n_ok++;
  }
  else
  {
    n_diag++;
    // main() always adds "*** Failed ***"; a failure without any message from the library is only counted
    if (r.out.empty()) { n_silent++; }
  }
  if ((n_exec & 0x3ff) == 0) { dump_stats(); }
  return 0;
}

// ------------------------------------------------------------------ grammar-aware mutator
static const char *snippets[] = {
  ".macro M(a,b)\n  .db a, b\n.endm\nM(1,2)\n", ".macro R\nR\n.endm\nR\n", ".define A B\n.define B A\nA\n",
  ".include \"self.inc\"\n", ".include \"ping.inc\"\n", ".include \"ok.inc\"\n", ".binfile \"data.bin\"\n",
  ".if 1\n", ".endif\n", ".ifdef X\n", ".else\n", ".ifndef X\n", ".org 0xffffffff\n", ".org 0xfffffffe\n", ".org 0\n",
  ".repeat 2\n", ".endr\n", ".scope\n", ".ends\n", ".func f\n", ".endf\n", ".db \"", ".ascii \"abc\\n\"\n",
  ".dc32 0xffffffff\n", ".dc64 0x7fffffffffffffff\n", ".align 16\n", ".set x=1\n", "x equ 2\n", ".export x\n",
  ".entry_point x\n", ".low_address 0\n", ".high_address 0xffffffff\n", ".list\n", ".msp430\n", ".mips\n", ".68000\n",
  ".arm\n", ".z80\n", ".6502\n", ".riscv\n", ".avr8\n", ".8051\n", ".big_endian\n", ".little_endian\n", "label:\n",
  "  mov.w #label, r5\n", "  jmp label\n", "  nop\n", NULL };
static int n_snippets = 0;

static uint32_t rnd_state;
static uint32_t rnd()
{
  rnd_state = rnd_state * 1664525u + 1013904223u;
  return rnd_state >> 8;
}

extern "C" size_t LLVMFuzzerCustomMutator(uint8_t *data, size_t size, size_t max_size, unsigned int seed)
{
  rnd_state = seed;
  if (n_snippets == 0) { while (snippets[n_snippets] != NULL) { n_snippets++; } }
  if (size < 2 || (rnd() & 3) == 0) { return LLVMFuzzerMutate(data, size, max_size); }
  std::string s((const char *)data + 1, size - 1);
  uint8_t opt = data[0];
  // split into lines
  std::vector<std::string> lines;
  {
    size_t pos = 0;
    while (pos <= s.size())
    {
      size_t nl = s.find('\n', pos);
      if (nl == std::string::npos) { lines.push_back(s.substr(pos)); break; }
      lines.push_back(s.substr(pos, nl - pos));
      pos = nl + 1;
    }
  }
  if (lines.empty()) { lines.push_back(""); }
  size_t li = rnd() % lines.size();
  switch (rnd() % 10)
  {
    case 0: lines.insert(lines.begin() + li, lines[rnd() % lines.size()]); break;            // duplicate a line
    case 1: if (lines.size() > 1) { lines.erase(lines.begin() + li); } break;                 // delete a line
    case 2:                                                                                   // delete a token
    {
      std::string &l = lines[li];
      size_t a = l.find_first_not_of(" \t,", l.empty() ? 0 : rnd() % l.size());
      if (a != std::string::npos)
      {
        size_t b = l.find_first_of(" \t,", a);
        l.erase(a, b == std::string::npos ? std::string::npos : b - a);
      }
      break;
    }
    case 3:                                                                                   // blow up a token
    {
      static const int lens[] = { 120, 127, 128, 129, 510, 511, 512, 513, 1023, 1024, 1025, 4096, 20000 };
      std::string &l = lines[li];
      char c = "aZ_9 \"(,x0"[rnd() % 10];
      size_t at = l.empty() ? 0 : rnd() % (l.size() + 1);
      l.insert(at, std::string(lens[rnd() % 13], c));
      break;
    }
    case 4: lines.insert(lines.begin() + li, snippets[rnd() % n_snippets]); break;            // insert a snippet
    case 5:                                                                                   // deep nesting
    {
      int depth = 1 << (rnd() % 9);
      const char *open = (rnd() & 1) ? ".if 1" : ".scope";
      const char *close = open[1] == 'i' ? ".endif" : ".ends";
      bool closeit = (rnd() & 1) != 0;
      std::string pre, post;
      for (int i = 0; i < depth; i++) { pre += open; pre += "\n"; if (closeit) { post += close; post += "\n"; } }
      lines.insert(lines.begin() + li, pre);
      lines.push_back(post);
      break;
    }
    case 6:                                                                                   // nested macro calls
    {
      int depth = 2 + rnd() % 140;
      std::string m;
      for (int i = 0; i < depth; i++)
      {
        char b[96];
        snprintf(b, sizeof(b), ".macro N%d(a)\n  N%d(a)\n.endm\n", i, i + 1);
        m += b;
      }
      char b[96];
      snprintf(b, sizeof(b), ".macro N%d(a)\n  .db a\n.endm\nN0(%s)\n", depth, (rnd() & 1) ? "1" : std::string(600, '7').c_str());
      m += b;
      lines.insert(lines.begin() + li, m);
      break;
    }
    case 7:                                                                                   // extreme number
    {
      static const char *nums[] = { "0xffffffff", "0x100000000", "-0x80000000", "0x7fffffff", "4294967296", "0", "-1",
                                    "0xffffffffffffffff", "99999999999999999999999", "0b11111111111111111111111111111111",
                                    "1/0", "1%0", "1<<63", "'", "\"", "$", "0x", "07777777777777777777777" };
      std::string &l = lines[li];
      size_t at = l.find_first_of("0123456789");
      if (at == std::string::npos) { l += " "; l += nums[rnd() % 18]; }
      else
      {
        size_t e = l.find_first_not_of("0123456789abcdefxABCDEFX", at);
        l.replace(at, e == std::string::npos ? std::string::npos : e - at, nums[rnd() % 18]);
      }
      break;
    }
    case 8: opt = rnd() & 0xff; break;
    default:
    {
      // swap two lines
      size_t lj = rnd() % lines.size();
      std::swap(lines[li], lines[lj]);
      break;
    }
  }
  std::string out;
  for (size_t i = 0; i < lines.size(); i++) { out += lines[i]; if (i + 1 < lines.size()) { out += "\n"; } }
  if (out.size() + 1 > max_size) { out.resize(max_size - 1); }
  data[0] = opt;
  memcpy(data + 1, out.data(), out.size());
  return out.size() + 1;
}
