// nvserve: in-process assembly / disassembly service for the Python
// (Hypothesis) properties.  Binary frames on stdin / (dup of) stdout:
//   frame  := u32 nfields { u32 klen, key, u32 vlen, value }*
// All integers little endian.  One request -> one reply.
#include <stdio.h>
#include <stdlib.h>
#include <string.h>
#include <unistd.h>
#include <string>
#include <map>

#include "nv_api.h"
#include "fileio/file.h"

typedef std::map<std::string, std::string> Frame;

static int out_fd = -1;

static bool read_all(int fd, void *p, size_t n)
{
  char *c = (char *)p;
  while (n > 0)
  {
    ssize_t k = read(fd, c, n);
    if (k <= 0) { return false; }
    c += k;
    n -= k;
  }
  return true;
}

static bool read_frame(Frame &f)
{
  uint32_t n;
  f.clear();
  if (!read_all(0, &n, 4)) { return false; }
  for (uint32_t i = 0; i < n; i++)
  {
    uint32_t kl, vl;
    if (!read_all(0, &kl, 4)) { return false; }
    std::string k(kl, 0);
    if (kl && !read_all(0, &k[0], kl)) { return false; }
    if (!read_all(0, &vl, 4)) { return false; }
    std::string v(vl, 0);
    if (vl && !read_all(0, &v[0], vl)) { return false; }
    f[k] = v;
  }
  return true;
}

static void write_frame(const Frame &f)
{
  std::string b;
  uint32_t n = f.size();
  b.append((char *)&n, 4);
  for (Frame::const_iterator it = f.begin(); it != f.end(); ++it)
  {
    uint32_t kl = it->first.size(), vl = it->second.size();
    b.append((char *)&kl, 4);
    b.append(it->first);
    b.append((char *)&vl, 4);
    b.append(it->second);
  }
  size_t off = 0;
  while (off < b.size())
  {
    ssize_t k = write(out_fd, b.data() + off, b.size() - off);
    if (k <= 0) { _exit(9); }
    off += k;
  }
}

static std::string itos(long long v)
{
  char t[32];
  snprintf(t, sizeof(t), "%lld", v);
  return t;
}

static std::string get(const Frame &f, const char *k, const char *def = "")
{
  Frame::const_iterator it = f.find(k);
  return it == f.end() ? std::string(def) : it->second;
}

static std::string syms_text(const std::vector<NvSym> &v)
{
  std::string s;
  for (size_t i = 0; i < v.size(); i++)
  {
    s += v[i].name + "\t" + itos(v[i].address) + "\t" + itos(v[i].scope) + "\t" +
         (v[i].exported ? "1" : "0") + "\n";
  }
  return s;
}

static void do_asm(const Frame &q, Frame &a)
{
  NvOpts o;
  std::string flags = get(q, "flags");
  o.optimize = flags.find('O') != std::string::npos;
  o.list = flags.find('L') != std::string::npos;
  o.symdebug = flags.find('S') != std::string::npos;
  o.pass1_only = flags.find('1') != std::string::npos;
  o.raw_util_style = flags.find('U') != std::string::npos;
  o.dump_symbols = flags.find('d') != std::string::npos;
  o.dump_macros = flags.find('m') != std::string::npos;
  o.quiet = flags.find('v') == std::string::npos;
  o.cpu = get(q, "cpu");
  o.org = atol(get(q, "org", "-1").c_str());
  o.file_type = atoi(get(q, "type", "-1").c_str());
  o.outfile = get(q, "outfile");
  std::string inc = get(q, "incpath");
  if (!inc.empty()) { o.include_paths.push_back(inc); }

  if (flags.find('F') != std::string::npos)
  {
    // file based source (cwd is the worker's scratch directory)
    o.srcfile = "input.asm";
    FILE *f = fopen("input.asm", "wb");
    if (f != NULL)
    {
      std::string s = get(q, "src");
      fwrite(s.data(), 1, s.size(), f);
      fclose(f);
    }
  }

  NvResult r;
  nv_assemble(get(q, "src"), o, r);

  a["phase"] = itos(r.phase);
  a["exit_code"] = itos(r.exit_code);
  a["exit_called"] = itos(r.exit_called ? 1 : 0);
  a["out"] = r.out;
  a["list"] = r.listing;
  a["sym1"] = syms_text(r.sym1);
  a["sym2"] = syms_text(r.sym2);
  a["low"] = itos(r.low);
  a["high"] = itos(r.high);
  a["endian"] = itos(r.endian);
  a["bpa"] = itos(r.bpa);
  a["cpu"] = itos(r.cpu_index);
  a["icount"] = itos(r.instruction_count);
  a["ccount"] = itos(r.code_count);
  a["dcount"] = itos(r.data_count);

  // image as runs: u32 start, u32 len, data[len], kind[len]
  std::string img;
  std::map<uint32_t, NvByte>::const_iterator it = r.image.begin();
  while (it != r.image.end())
  {
    uint32_t start = it->first;
    std::string d, k;
    uint32_t next = start;
    while (it != r.image.end() && it->first == next)
    {
      d.push_back((char)it->second.data);
      k.push_back((char)it->second.kind);
      ++it;
      ++next;
      if (next == 0) { break; }
    }
    uint32_t len = d.size();
    img.append((char *)&start, 4);
    img.append((char *)&len, 4);
    img += d;
    img += k;
  }
  a["img"] = img;
}

static void do_dis(const Frame &q, Frame &a)
{
  const NvCpu *cpu = nv_cpu_by_name(get(q, "cpu").c_str());
  if (cpu == NULL || cpu->disasm == NULL) { a["error"] = "unknown cpu"; return; }
  uint32_t addr = strtoul(get(q, "addr", "0").c_str(), NULL, 0);
  std::string bytes = get(q, "bytes");
  int count = atoi(get(q, "count", "1").c_str());
  Memory mem;
  mem.endian = cpu->endian;
  for (size_t i = 0; i < bytes.size(); i++) { mem.write8(addr + i, (uint8_t)bytes[i]); }
  std::string out;
  uint32_t cur = addr;
  for (int i = 0; i < count; i++)
  {
    if ((uint64_t)cur - addr >= bytes.size()) { break; }
    std::string text;
    int n = nv_disasm(cpu, &mem, cur, text);
    out += itos(cur) + "\t" + itos(n) + "\t" + text + "\n";
    if (n <= 0) { break; }
    cur += n;
  }
  a["dis"] = out;
}

// ------------------------------------------------------------------ C08 scan
// Decodes every leading 16-bit pattern lo..hi (memory order: high byte first)
// followed by three different tails and checks the per-instruction clauses of
// C08 in-process.  Anomalies are returned as lines "kind\tpattern\ttail\tdetail".
static void fill(Memory &mem, uint32_t addr, int p, int tail, bool complement_tail, int keep)
{
  uint8_t b[20];
  b[0] = (p >> 8) & 0xff;
  b[1] = p & 0xff;
  for (int i = 2; i < 20; i++)
  {
    uint8_t t;
    if (tail == 0) { t = 0; }
    else if (tail == 1) { t = 0xff; }
    else { t = (uint8_t)((p * 31 + i * 97 + (p >> 5)) ^ (i << 3)); }
    b[i] = t;
  }
  for (int i = 0; i < 20; i++)
  {
    uint8_t v = b[i];
    if (complement_tail && i >= keep) { v = ~v; }
    mem.write8(addr + i, v);
  }
}

// The scan itself runs in forked children so that a decoder that crashes or hangs on one pattern costs one
// fork, not the worker: the child reports "@<pattern>" before each pattern, the parent records a crash/hang at
// the last reported pattern and forks again for the rest.
static void c08scan_child(const NvCpu *cpu, int lo, int hi, int step, int lmax, uint32_t addr, int fd)
{
  Memory mem;
  mem.endian = cpu->endian;
  std::string out;
  long evals = 0, unknown = 0, multi = 0;
  std::map<int, long> lens;
  char d[400];
  for (int p = lo; p <= hi; p += step)
  {
    snprintf(d, sizeof(d), "@%d\n", p);
    out += d;
    if (out.size() > 60000 || true)
    {
      if (write(fd, out.data(), out.size()) < 0) { _exit(3); }
      out.clear();
    }
    alarm(10);
    for (int tail = 0; tail < 3; tail++)
    {
      for (int k = -4; k < 0; k++) { mem.write8(addr + k, 0x11 * (tail + 1)); }
      fill(mem, addr, p, tail, false, 0);
      std::string t1, t2, t3, t4;
      int n1 = nv_disasm(cpu, &mem, addr, t1);
      evals++;
      lens[n1]++;
      if (t1.find("<<UNTERMINATED>>") != std::string::npos)
      {
        snprintf(d, sizeof(d), "unterminated\t%d\t%d\tlen=%d\n", p, tail, n1);
        out += d;
        continue;
      }
      if (t1.find("???") != std::string::npos || t1.empty()) { unknown++; }
      if (n1 <= 0)
      {
        snprintf(d, sizeof(d), "len_nonpositive\t%d\t%d\tlen=%d text=%.60s\n", p, tail, n1, t1.c_str());
        out += d;
        continue;
      }
      if (n1 % cpu->unit != 0)
      {
        snprintf(d, sizeof(d), "len_not_unit_multiple\t%d\t%d\tlen=%d unit=%d text=%.60s\n", p, tail, n1, cpu->unit, t1.c_str());
        out += d;
      }
      if (n1 > lmax)
      {
        snprintf(d, sizeof(d), "len_too_long\t%d\t%d\tlen=%d text=%.60s\n", p, tail, n1, t1.c_str());
        out += d;
      }
      if (n1 > cpu->unit) { multi++; }
      int n2 = nv_disasm(cpu, &mem, addr, t2);
      if (n2 != n1 || t2 != t1)
      {
        snprintf(d, sizeof(d), "nondeterministic\t%d\t%d\tlen=%d/%d\n", p, tail, n1, n2);
        out += d;
      }
      // for an undefined encoding the decoder necessarily looked at more bytes than the one unit it consumes
      const bool undefined = t1.find("???") != std::string::npos || t1.empty();
      if (n1 < 20 && !undefined)
      {
        fill(mem, addr, p, tail, true, n1);
        int n3 = nv_disasm(cpu, &mem, addr, t3);
        if (n3 != n1 || t3 != t1)
        {
          snprintf(d, sizeof(d), "nonlocal_after\t%d\t%d\tlen=%d '%.50s' vs len=%d '%.50s'\n", p, tail, n1, t1.c_str(), n3, t3.c_str());
          out += d;
        }
        fill(mem, addr, p, tail, false, 0);
      }
      for (int k = -4; k < 0; k++) { mem.write8(addr + k, 0xe7 ^ (k & 0xff)); }
      int n4 = nv_disasm(cpu, &mem, addr, t4);
      if (n4 != n1 || t4 != t1)
      {
        snprintf(d, sizeof(d), "nonlocal_before\t%d\t%d\tlen=%d '%.50s' vs len=%d '%.50s'\n", p, tail, n1, t1.c_str(), n4, t4.c_str());
        out += d;
      }
    }
  }
  snprintf(d, sizeof(d), "#stats\t%ld\t%ld\t%ld\n", evals, unknown, multi);
  out += d;
  for (std::map<int, long>::iterator it = lens.begin(); it != lens.end(); ++it)
  {
    snprintf(d, sizeof(d), "#len\t%d\t%ld\n", it->first, it->second);
    out += d;
  }
  out += "#done\n";
  if (write(fd, out.data(), out.size()) < 0) { _exit(3); }
  _exit(0);
}

#include <sys/wait.h>
#include <signal.h>
#include <time.h>

static void do_c08scan(const Frame &q, Frame &a)
{
  const NvCpu *cpu = nv_cpu_by_name(get(q, "cpu").c_str());
  if (cpu == NULL || cpu->disasm == NULL) { a["error"] = "unknown cpu"; return; }
  int lo = atoi(get(q, "lo", "0").c_str());
  int hi = atoi(get(q, "hi", "65535").c_str());
  int step = atoi(get(q, "step", "1").c_str());
  int lmax = atoi(get(q, "lmax", "16").c_str());
  uint32_t addr = strtoul(get(q, "addr", "256").c_str(), NULL, 0);
  std::string anomalies;
  long evals = 0, unknown = 0, multi = 0;
  std::map<int, long> lens;
  int cur = lo;
  int forks = 0;
  while (cur <= hi && forks < 70000)
  {
    int fds[2];
    if (pipe(fds) != 0) { a["error"] = "pipe"; return; }
    fflush(NULL);
    pid_t pid = fork();
    forks++;
    if (pid == 0)
    {
      close(fds[0]);
      c08scan_child(cpu, cur, hi, step, lmax, addr, fds[1]);
    }
    close(fds[1]);
    std::string text;
    char buf[65536];
    while (true)
    {
      ssize_t k = read(fds[0], buf, sizeof(buf));
      if (k <= 0) { break; }
      text.append(buf, k);
    }
    close(fds[0]);
    int status = 0;
    waitpid(pid, &status, 0);
    // parse
    int last = cur - step;
    bool done = false;
    size_t pos = 0;
    while (pos < text.size())
    {
      size_t nl = text.find('\n', pos);
      if (nl == std::string::npos) { break; }
      std::string line = text.substr(pos, nl - pos);
      pos = nl + 1;
      if (line.empty()) { continue; }
      if (line[0] == '@') { last = atoi(line.c_str() + 1); continue; }
      if (line == "#done") { done = true; continue; }
      if (line.compare(0, 6, "#stats") == 0)
      {
        long e, u, m;
        if (sscanf(line.c_str() + 7, "%ld\t%ld\t%ld", &e, &u, &m) == 3) { evals += e; unknown += u; multi += m; }
        continue;
      }
      if (line.compare(0, 4, "#len") == 0)
      {
        int l; long c;
        if (sscanf(line.c_str() + 5, "%d\t%ld", &l, &c) == 2) { lens[l] += c; }
        continue;
      }
      anomalies += line + "\n";
    }
    if (done) { break; }
    // the child died on pattern `last`
    char d[200];
    const char *kind = (WIFSIGNALED(status) && WTERMSIG(status) == SIGALRM) ? "hang" : "crash";
    snprintf(d, sizeof(d), "%s\t%d\t0\tchild status %d\n", kind, last, WIFEXITED(status) ? WEXITSTATUS(status) : -WTERMSIG(status));
    anomalies += d;
    evals += 3;
    cur = last + step;
  }
  a["anomalies"] = anomalies;
  a["evals"] = itos(evals);
  a["unknown"] = itos(unknown);
  a["multi"] = itos(multi);
  std::string ls;
  for (std::map<int, long>::iterator it = lens.begin(); it != lens.end(); ++it)
  {
    ls += itos(it->first) + ":" + itos(it->second) + " ";
  }
  a["lens"] = ls;
}

// ------------------------------------------------------------- range (forked)
static void do_range(const Frame &q, Frame &a)
{
  const NvCpu *cpu = nv_cpu_by_name(get(q, "cpu").c_str());
  if (cpu == NULL) { a["error"] = "unknown cpu"; return; }
  uint32_t addr = strtoul(get(q, "addr", "0").c_str(), NULL, 0);
  uint32_t start = strtoul(get(q, "start", "0").c_str(), NULL, 0);
  uint32_t end = strtoul(get(q, "end", "0").c_str(), NULL, 0);
  int timeout_s = atoi(get(q, "timeout", "5").c_str());
  std::string bytes = get(q, "bytes");
  int fds[2];
  if (pipe(fds) != 0) { a["error"] = "pipe"; return; }
  fflush(NULL);
  pid_t pid = fork();
  if (pid == 0)
  {
    close(fds[0]);
    dup2(fds[1], 1);
    alarm(timeout_s + 2);
    Memory *mem = new Memory();
    mem->endian = cpu->endian;
    for (size_t i = 0; i < bytes.size(); i++) { mem->write8(addr + i, (uint8_t)bytes[i]); }
    setvbuf(stdout, NULL, _IOFBF, 1 << 16);
    cpu_list[cpu->index].disasm_range(mem, cpu->flags, start, end);
    fflush(stdout);
    _exit(0);
  }
  close(fds[1]);
  std::string text;
  char buf[4096];
  time_t t0 = time(NULL);
  bool timed_out = false;
  // non-blocking-ish read loop with a deadline
  while (true)
  {
    fd_set rf;
    FD_ZERO(&rf);
    FD_SET(fds[0], &rf);
    struct timeval tv = { 1, 0 };
    int r = select(fds[0] + 1, &rf, NULL, NULL, &tv);
    if (r > 0)
    {
      ssize_t k = read(fds[0], buf, sizeof(buf));
      if (k <= 0) { break; }
      if (text.size() < (1 << 20)) { text.append(buf, k); }
    }
    if (time(NULL) - t0 > timeout_s || text.size() >= (1 << 20))
    {
      timed_out = (time(NULL) - t0 > timeout_s);
      kill(pid, SIGKILL);
      break;
    }
  }
  close(fds[0]);
  int status = 0;
  waitpid(pid, &status, 0);
  a["text"] = text;
  a["timeout"] = timed_out ? "1" : "0";
  a["overflow"] = text.size() >= (1 << 20) ? "1" : "0";
  a["status"] = itos(WIFEXITED(status) ? WEXITSTATUS(status) : -WTERMSIG(status));
}

static void do_cpus(Frame &a)
{
  std::string s;
  for (int i = 0; i < nv_cpu_count(); i++)
  {
    const NvCpu *c = nv_cpu(i);
    s += std::string(c->name) + "\t" + itos(c->unit) + "\t" + itos(c->align) + "\t" +
         itos(c->endian) + "\t" + (cpu_list[c->index].simulate_init ? "1" : "0") + "\t" +
         itos(cpu_list[c->index].srec_size) + "\t" + itos(cpu_list[c->index].type) + "\n";
  }
  a["cpus"] = s;
}

int main(int argc, char *argv[])
{
  out_fd = dup(1);
  // anything printed to fd 1 outside a capture goes to stderr's file
  dup2(2, 1);
  if (argc > 1) { if (chdir(argv[1]) != 0) { return 8; } }

  Frame q, a;
  while (read_frame(q))
  {
    a.clear();
    std::string cmd = get(q, "cmd");
    if (cmd == "asm") { do_asm(q, a); }
    else if (cmd == "dis") { do_dis(q, a); }
    else if (cmd == "cpus") { do_cpus(a); }
    else if (cmd == "c08scan") { do_c08scan(q, a); }
    else if (cmd == "range") { do_range(q, a); }
    else if (cmd == "ping") { a["pong"] = "1"; }
    else { a["error"] = "unknown cmd"; }
    write_frame(a);
  }
  return 0;
}
