// nvserve: in-process assembly / disassembly service for the Python
// (Hypothesis) properties.  Binary frames on stdin / (dup of) stdout:
//   frame  := u32 nfields { u32 klen, key, u32 vlen, value }*
// All integers little endian.  One request -> one reply.
#include <stdio.h>
#include <stdlib.h>
#include <string.h>
#include <unistd.h>
#include <sys/wait.h>
#include <signal.h>
#include <string>
#include <map>
#include <set>
#include <vector>

#include "nv_api.h"
#include "fileio/file.h"

typedef std::map<std::string, std::string> Frame;

static int out_fd = -1;

static bool read_all(int fd, void *p, size_t n)
{
  char *c = (char *)p;
  while (n > 0)
  {
    ssize_t k = read(fd, c, n);
    if (k <= 0) { return false; }
    c += k;
    n -= k;
  }
  return true;
}

static bool read_frame(Frame &f)
{
  uint32_t n;
  f.clear();
  if (!read_all(0, &n, 4)) { return false; }
  for (uint32_t i = 0; i < n; i++)
  {
    uint32_t kl, vl;
    if (!read_all(0, &kl, 4)) { return false; }
    std::string k(kl, 0);
    if (kl && !read_all(0, &k[0], kl)) { return false; }
    if (!read_all(0, &vl, 4)) { return false; }
    std::string v(vl, 0);
    if (vl && !read_all(0, &v[0], vl)) { return false; }
    f[k] = v;
  }
  return true;
}

static void write_frame(const Frame &f)
{
  std::string b;
  uint32_t n = f.size();
  b.append((char *)&n, 4);
  for (Frame::const_iterator it = f.begin(); it != f.end(); ++it)
  {
    uint32_t kl = it->first.size(), vl = it->second.size();
    b.append((char *)&kl, 4);
    b.append(it->first);
    b.append((char *)&vl, 4);
    b.append(it->second);
  }
  size_t off = 0;
  while (off < b.size())
  {
    ssize_t k = write(out_fd, b.data() + off, b.size() - off);
    if (k <= 0) { _exit(9); }
    off += k;
  }
}

static std::string itos(long long v)
{
  char t[32];
  snprintf(t, sizeof(t), "%lld", v);
  return t;
}

static std::string get(const Frame &f, const char *k, const char *def = "")
{
  Frame::const_iterator it = f.find(k);
  return it == f.end() ? std::string(def) : it->second;
}

static std::string syms_text(const std::vector<NvSym> &v)
{
  std::string s;
  for (size_t i = 0; i < v.size(); i++)
  {
    s += v[i].name + "\t" + itos(v[i].address) + "\t" + itos(v[i].scope) + "\t" +
         (v[i].exported ? "1" : "0") + "\n";
  }
  return s;
}

static void do_asm(const Frame &q, Frame &a)
{
  NvOpts o;
  std::string flags = get(q, "flags");
  o.optimize = flags.find('O') != std::string::npos;
  o.list = flags.find('L') != std::string::npos;
  o.symdebug = flags.find('S') != std::string::npos;
  o.pass1_only = flags.find('1') != std::string::npos;
  o.raw_util_style = flags.find('U') != std::string::npos;
  o.dump_symbols = flags.find('d') != std::string::npos;
  o.dump_macros = flags.find('m') != std::string::npos;
  o.quiet = flags.find('v') == std::string::npos;
  o.cpu = get(q, "cpu");
  o.org = atol(get(q, "org", "-1").c_str());
  o.file_type = atoi(get(q, "type", "-1").c_str());
  o.outfile = get(q, "outfile");
  std::string inc = get(q, "incpath");
  if (!inc.empty()) { o.include_paths.push_back(inc); }

  if (flags.find('F') != std::string::npos)
  {
    // file based source (cwd is the worker's scratch directory)
    o.srcfile = "input.asm";
    FILE *f = fopen("input.asm", "wb");
    if (f != NULL)
    {
      std::string s = get(q, "src");
      fwrite(s.data(), 1, s.size(), f);
      fclose(f);
    }
  }

  NvResult r;
  nv_assemble(get(q, "src"), o, r);

  a["phase"] = itos(r.phase);
  a["exit_code"] = itos(r.exit_code);
  a["exit_called"] = itos(r.exit_called ? 1 : 0);
  a["out"] = r.out;
  a["list"] = r.listing;
  a["sym1"] = syms_text(r.sym1);
  a["sym2"] = syms_text(r.sym2);
  a["low"] = itos(r.low);
  a["high"] = itos(r.high);
  a["endian"] = itos(r.endian);
  a["bpa"] = itos(r.bpa);
  a["cpu"] = itos(r.cpu_index);
  a["icount"] = itos(r.instruction_count);
  a["ccount"] = itos(r.code_count);
  a["dcount"] = itos(r.data_count);
  a["r8bad"] = std::to_string(r.read8_bad);

  // image as runs: u32 start, u32 len, data[len], kind[len]
  std::string img;
  std::map<uint32_t, NvByte>::const_iterator it = r.image.begin();
  while (it != r.image.end())
  {
    uint32_t start = it->first;
    std::string d, k;
    uint32_t next = start;
    while (it != r.image.end() && it->first == next)
    {
      d.push_back((char)it->second.data);
      k.push_back((char)it->second.kind);
      ++it;
      ++next;
      if (next == 0) { break; }
    }
    uint32_t len = d.size();
    img.append((char *)&start, 4);
    img.append((char *)&len, 4);
    img += d;
    img += k;
  }
  a["img"] = img;
}

// For every mnemonic the decoder produces over the 65,536 leading patterns (zero tail): up to `per` representative
// patterns (first ones and last one).  Runs in a forked child (a decoder may crash on some pattern).
static void do_mnemonics(const Frame &q, Frame &a)
{
  const NvCpu *cpu = nv_cpu_by_name(get(q, "cpu").c_str());
  if (cpu == NULL || cpu->disasm == NULL) { a["error"] = "unknown cpu"; return; }
  int per = atoi(get(q, "per", "3").c_str());
  int swap16 = atoi(get(q, "swap16", "0").c_str());      // the pattern is a little endian 16-bit word
  int fds[2];
  if (pipe(fds) != 0) { a["error"] = "pipe"; return; }
  fflush(NULL);
  pid_t pid = fork();
  if (pid == 0)
  {
    close(fds[0]);
    alarm(120);
    Memory mem;
    mem.endian = cpu->endian;
    std::map<std::string, std::vector<int> > reps;
    std::map<std::string, int> last;
    for (int p = 0; p < 65536; p++)
    {
      // word oriented CPUs: the pattern is the first instruction word in the CPU's byte order
      uint8_t b0 = (p >> 8) & 0xff, b1 = p & 0xff;
      for (int i = 0; i < 16; i++) { mem.write8(256 + i, 0); }
      if (swap16) { mem.write8(256, b1); mem.write8(257, b0); }
      else { mem.write8(256, b0); mem.write8(257, b1); }
      std::string t;
      int n = nv_disasm(cpu, &mem, 256, t);
      if (n <= 0 || t.empty()) { continue; }
      size_t sp = t.find_first_of(" \t");
      std::string mn = t.substr(0, sp == std::string::npos ? t.size() : sp);
      std::vector<int> &v = reps[mn];
      if ((int)v.size() < per) { v.push_back(p); }
      last[mn] = p;
    }
    std::string out;
    for (std::map<std::string, std::vector<int> >::iterator it = reps.begin(); it != reps.end(); ++it)
    {
      out += it->first + "\t";
      for (size_t i = 0; i < it->second.size(); i++) { out += itos(it->second[i]) + ","; }
      out += itos(last[it->first]) + "\n";
    }
    size_t off = 0;
    while (off < out.size()) { ssize_t k = write(fds[1], out.data() + off, out.size() - off); if (k <= 0) { break; } off += k; }
    _exit(0);
  }
  close(fds[1]);
  std::string text;
  char buf[65536];
  while (true)
  {
    ssize_t k = read(fds[0], buf, sizeof(buf));
    if (k <= 0) { break; }
    text.append(buf, k);
  }
  close(fds[0]);
  int status = 0;
  waitpid(pid, &status, 0);
  a["mnemonics"] = text;
}

static void do_dis(const Frame &q, Frame &a)
{
  const NvCpu *cpu = nv_cpu_by_name(get(q, "cpu").c_str());
  if (cpu == NULL || cpu->disasm == NULL) { a["error"] = "unknown cpu"; return; }
  uint32_t addr = strtoul(get(q, "addr", "0").c_str(), NULL, 0);
  std::string bytes = get(q, "bytes");
  int count = atoi(get(q, "count", "1").c_str());
  Memory mem;
  mem.endian = cpu->endian;
  for (size_t i = 0; i < bytes.size(); i++) { mem.write8(addr + i, (uint8_t)bytes[i]); }
  std::string out;
  uint32_t cur = addr;
  for (int i = 0; i < count; i++)
  {
    if ((uint64_t)cur - addr >= bytes.size()) { break; }
    std::string text;
    int n = nv_disasm(cpu, &mem, cur, text);
    out += itos(cur) + "\t" + itos(n) + "\t" + text + "\n";
    if (n <= 0) { break; }
    cur += n;
  }
  a["dis"] = out;
}

// ------------------------------------------------------------------ C08 scan
// Decodes every leading 16-bit pattern lo..hi (memory order: high byte first)
// followed by three different tails and checks the per-instruction clauses of
// C08 in-process.  Anomalies are returned as lines "kind\tpattern\ttail\tdetail".
static void fill(Memory &mem, uint32_t addr, int p, int tail, bool complement_tail, int keep)
{
  uint8_t b[20];
  b[0] = (p >> 8) & 0xff;
  b[1] = p & 0xff;
  for (int i = 2; i < 20; i++)
  {
    uint8_t t;
    if (tail >= 1000)
    {
      // deep tails: byte 2 or byte 3 takes every value (bytes that select the instruction behind a prefix)
      int k = 2 + (tail - 1000) / 256;
      t = (i == k) ? (uint8_t)((tail - 1000) & 0xff) : ((k == 3 && i == 2) ? 0x05 : 0);
    }
    else if (tail == 0) { t = 0; }
    else if (tail == 1) { t = 0xff; }
    else if (tail == 2) { t = (uint8_t)((p * 31 + i * 97 + (p >> 5)) ^ (i << 3)); }
    else
    {
      // structured tails (32-bit ISAs): the second half word is a single bit, an adjacent bit pair or a mask
      static const uint16_t masks[] = { 0x5555, 0xaaaa, 0x0f0f, 0xf0f0, 0x00ff, 0xff00 };
      int k = tail - 3;
      uint16_t v = k < 16 ? (1 << k) : (k < 31 ? (3 << (k - 16)) : masks[(k - 31) % 6]);
      t = i == 2 ? (v & 0xff) : (i == 3 ? (v >> 8) : 0);
    }
    b[i] = t;
  }
  for (int i = 0; i < 20; i++)
  {
    uint8_t v = b[i];
    if (complement_tail && i >= keep) { v = ~v; }
    mem.write8(addr + i, v);
  }
}

// The scan itself runs in forked children so that a decoder that crashes or hangs on one pattern costs one
// fork, not the worker: the child reports "@<pattern>" before each pattern, the parent records a crash/hang at
// the last reported pattern and forks again for the rest.
static void c08scan_child(const NvCpu *cpu, int lo, int hi, int step, int lmax, uint32_t addr, int fd)
{
  Memory mem;
  mem.endian = cpu->endian;
  std::string out;
  long evals = 0, unknown = 0, multi = 0;
  std::map<int, long> lens;
  char d[400];
  std::vector<std::pair<int, std::string> > first(65536, std::make_pair(-9999, std::string()));
  for (int p = lo; p <= hi; p += step)
  {
    snprintf(d, sizeof(d), "@%d\n", p);
    out += d;
    if (out.size() > 60000 || true)
    {
      if (write(fd, out.data(), out.size()) < 0) { _exit(3); }
      out.clear();
    }
    alarm(10);
    for (int tail = 0; tail < 3; tail++)
    {
      for (int k = -4; k < 0; k++) { mem.write8(addr + k, 0x11 * (tail + 1)); }
      fill(mem, addr, p, tail, false, 0);
      std::string t1, t2, t3, t4;
      int n1 = nv_disasm(cpu, &mem, addr, t1);
      evals++;
      lens[n1]++;
      if (t1.find("<<UNTERMINATED>>") != std::string::npos)
      {
        snprintf(d, sizeof(d), "unterminated\t%d\t%d\tlen=%d\n", p, tail, n1);
        out += d;
        continue;
      }
      if (t1.find("???") != std::string::npos || t1.empty()) { unknown++; }
      if (n1 <= 0)
      {
        snprintf(d, sizeof(d), "len_nonpositive\t%d\t%d\tlen=%d text=%.60s\n", p, tail, n1, t1.c_str());
        out += d;
        continue;
      }
      if (n1 % cpu->unit != 0)
      {
        snprintf(d, sizeof(d), "len_not_unit_multiple\t%d\t%d\tlen=%d unit=%d text=%.60s\n", p, tail, n1, cpu->unit, t1.c_str());
        out += d;
      }
      if (n1 > lmax)
      {
        snprintf(d, sizeof(d), "len_too_long\t%d\t%d\tlen=%d text=%.60s\n", p, tail, n1, t1.c_str());
        out += d;
      }
      if (n1 > cpu->unit) { multi++; }
      if (tail == 2 && p >= 0 && p < 65536) { first[p] = std::make_pair(n1, t1); }
      int n2 = nv_disasm(cpu, &mem, addr, t2);
      if (n2 != n1 || t2 != t1)
      {
        snprintf(d, sizeof(d), "nondeterministic\t%d\t%d\tlen=%d/%d\n", p, tail, n1, n2);
        out += d;
      }
      // for an undefined encoding the decoder necessarily looked at more bytes than the one unit it consumes
      const bool undefined = t1.find("???") != std::string::npos || t1.empty();
      if (n1 < 20 && !undefined)
      {
        fill(mem, addr, p, tail, true, n1);
        int n3 = nv_disasm(cpu, &mem, addr, t3);
        if (n3 != n1 || t3 != t1)
        {
          snprintf(d, sizeof(d), "nonlocal_after\t%d\t%d\tlen=%d '%.50s' vs len=%d '%.50s'\n", p, tail, n1, t1.c_str(), n3, t3.c_str());
          out += d;
        }
        fill(mem, addr, p, tail, false, 0);
      }
      for (int k = -4; k < 0; k++) { mem.write8(addr + k, 0xe7 ^ (k & 0xff)); }
      int n4 = nv_disasm(cpu, &mem, addr, t4);
      if (n4 != n1 || t4 != t1)
      {
        snprintf(d, sizeof(d), "nonlocal_before\t%d\t%d\tlen=%d '%.50s' vs len=%d '%.50s'\n", p, tail, n1, t1.c_str(), n4, t4.c_str());
        out += d;
      }
    }
  }
  // second pass in the opposite order: a decoder that keeps state between calls (a static "mode" variable)
  // renders a pattern differently depending on what was decoded before it
  alarm(120);
  for (int k = -4; k < 0; k++) { mem.write8(addr + k, 0x11 * 3); }      // as in the first pass for tail 2
  for (int p = hi - ((hi - lo) % step); p >= lo; p -= step)
  {
    if (p < 0 || p >= 65536 || first[p].first == -9999) { continue; }
    fill(mem, addr, p, 2, false, 0);
    std::string t5;
    int n5 = nv_disasm(cpu, &mem, addr, t5);
    evals++;
    if (n5 != first[p].first || t5 != first[p].second)
    {
      snprintf(d, sizeof(d), "order_dependent\t%d\t2\tlen=%d '%.50s' vs len=%d '%.50s'\n", p, first[p].first,
               first[p].second.c_str(), n5, t5.c_str());
      out += d;
    }
  }
  snprintf(d, sizeof(d), "#stats\t%ld\t%ld\t%ld\n", evals, unknown, multi);
  out += d;
  for (std::map<int, long>::iterator it = lens.begin(); it != lens.end(); ++it)
  {
    snprintf(d, sizeof(d), "#len\t%d\t%ld\n", it->first, it->second);
    out += d;
  }
  out += "#done\n";
  if (write(fd, out.data(), out.size()) < 0) { _exit(3); }
  _exit(0);
}

#include <sys/wait.h>
#include <signal.h>
#include <time.h>

static void do_c08scan(const Frame &q, Frame &a)
{
  const NvCpu *cpu = nv_cpu_by_name(get(q, "cpu").c_str());
  if (cpu == NULL || cpu->disasm == NULL) { a["error"] = "unknown cpu"; return; }
  int lo = atoi(get(q, "lo", "0").c_str());
  int hi = atoi(get(q, "hi", "65535").c_str());
  int step = atoi(get(q, "step", "1").c_str());
  int lmax = atoi(get(q, "lmax", "16").c_str());
  uint32_t addr = strtoul(get(q, "addr", "256").c_str(), NULL, 0);
  std::string anomalies;
  long evals = 0, unknown = 0, multi = 0;
  std::map<int, long> lens;
  int cur = lo;
  int forks = 0;
  while (cur <= hi && forks < 70000)
  {
    int fds[2];
    if (pipe(fds) != 0) { a["error"] = "pipe"; return; }
    fflush(NULL);
    pid_t pid = fork();
    forks++;
    if (pid == 0)
    {
      close(fds[0]);
      c08scan_child(cpu, cur, hi, step, lmax, addr, fds[1]);
    }
    close(fds[1]);
    std::string text;
    char buf[65536];
    while (true)
    {
      ssize_t k = read(fds[0], buf, sizeof(buf));
      if (k <= 0) { break; }
      text.append(buf, k);
    }
    close(fds[0]);
    int status = 0;
    waitpid(pid, &status, 0);
    // parse
    int last = cur - step;
    bool done = false;
    size_t pos = 0;
    while (pos < text.size())
    {
      size_t nl = text.find('\n', pos);
      if (nl == std::string::npos) { break; }
      std::string line = text.substr(pos, nl - pos);
      pos = nl + 1;
      if (line.empty()) { continue; }
      if (line[0] == '@') { last = atoi(line.c_str() + 1); continue; }
      if (line == "#done") { done = true; continue; }
      if (line.compare(0, 6, "#stats") == 0)
      {
        long e, u, m;
        if (sscanf(line.c_str() + 7, "%ld\t%ld\t%ld", &e, &u, &m) == 3) { evals += e; unknown += u; multi += m; }
        continue;
      }
      if (line.compare(0, 4, "#len") == 0)
      {
        int l; long c;
        if (sscanf(line.c_str() + 5, "%d\t%ld", &l, &c) == 2) { lens[l] += c; }
        continue;
      }
      anomalies += line + "\n";
    }
    if (done) { break; }
    // the child died on pattern `last`
    char d[200];
    const char *kind = (WIFSIGNALED(status) && WTERMSIG(status) == SIGALRM) ? "hang" : "crash";
    snprintf(d, sizeof(d), "%s\t%d\t0\tchild status %d\n", kind, last, WIFEXITED(status) ? WEXITSTATUS(status) : -WTERMSIG(status));
    anomalies += d;
    evals += 3;
    cur = last + step;
  }
  a["anomalies"] = anomalies;
  a["evals"] = itos(evals);
  a["unknown"] = itos(unknown);
  a["multi"] = itos(multi);
  std::string ls;
  for (std::map<int, long>::iterator it = lens.begin(); it != lens.end(); ++it)
  {
    ls += itos(it->first) + ":" + itos(it->second) + " ";
  }
  a["lens"] = ls;
}

// ------------------------------------------------------------------ C07/C01 scan
// decode -> assemble -> decode over leading 16-bit patterns, in forked children (see c08scan).
static std::string strip_annotation(const std::string &t)
{
  // "... (offset=-47)" / "... (123)" : drop one trailing parenthesised group
  size_t e = t.find_last_not_of(' ');
  if (e == std::string::npos || t[e] != ')') { return t; }
  size_t b = t.rfind(" (", e);
  if (b == std::string::npos) { return t; }
  return t.substr(0, b);
}

static bool asm_one(const NvCpu *cpu, uint32_t addr, const std::string &text, std::string &bytes)
{
  std::string src = std::string(".") + cpu->name + "\n.org " + itos(addr / cpu->unit) + "\n" + text + "\n";
  NvOpts o;
  NvResult r;
  nv_assemble(src, o, r);
  bytes.clear();
  if (r.phase != 0) { return false; }
  for (std::map<uint32_t, NvByte>::iterator it = r.image.begin(); it != r.image.end(); ++it)
  {
    if (it->first < addr || it->first >= addr + 64) { return false; }
  }
  uint32_t a = addr;
  while (r.image.count(a)) { bytes.push_back((char)r.image[a].data); a++; }
  return !bytes.empty() && bytes.size() == r.image.size();
}

// mnemonic + operand shape: numbers replaced by N (used to list one accepted rendering per instruction form)
static std::string shape_of_text(const std::string &t)
{
  std::string o;
  size_t i = 0;
  while (i < t.size())
  {
    char c = t[i];
    bool prev_alnum = i > 0 && (isalnum((unsigned char)t[i - 1]) || t[i - 1] == '_' || t[i - 1] == '.');
    if (c == '$' && !prev_alnum && i + 1 < t.size() && isxdigit((unsigned char)t[i + 1]))
    {
      // $hex notation
      size_t j = i + 1;
      while (j < t.size() && isxdigit((unsigned char)t[j])) { j++; }
      o += 'N';
      i = j;
      continue;
    }
    if (c == '-' && i + 1 < t.size() && (isdigit((unsigned char)t[i + 1]) || t[i + 1] == '$') &&
        (i == 0 || strchr(" ,=(#[+:", t[i - 1]) != NULL))
    {
      i++;            // the sign of a number is part of the number
      continue;
    }
    if (isdigit((unsigned char)c) && !prev_alnum)
    {
      size_t j = i;
      if (c == '0' && j + 1 < t.size() && (t[j + 1] == 'x' || t[j + 1] == 'X')) { j += 2; while (j < t.size() && isxdigit((unsigned char)t[j])) { j++; } }
      else { while (j < t.size() && isxdigit((unsigned char)t[j])) { j++; } }
      o += 'N';
      i = j;
      continue;
    }
    o += c;
    i++;
  }
  return o;
}

// letters followed by digits (register names) lose their digits: r12 -> r#
static std::string reg_abstract(const std::string &t)
{
  std::string o;
  size_t i = 0;
  while (i < t.size())
  {
    if (isalpha((unsigned char)t[i]) && (i == 0 || !isalnum((unsigned char)t[i - 1])))
    {
      size_t j = i;
      while (j < t.size() && isalpha((unsigned char)t[j])) { j++; }
      size_t k = j;
      while (k < t.size() && isdigit((unsigned char)t[k])) { k++; }
      o += t.substr(i, j - i);
      if (k > j && (k == t.size() || !isalnum((unsigned char)t[k]))) { o += '#'; i = k; }
      else { i = j; }
      continue;
    }
    o += t[i++];
  }
  return o;
}

static void c07scan_child(const NvCpu *cpu, int lo, int hi, int step, int tails, int stails, uint32_t addr, int fd, int emit, int deep,
                          int extonly)
{
  std::set<std::string> emitted;
  long deep_patterns = 0;
  Memory mem;
  mem.endian = cpu->endian;
  std::string out;
  long evals = 0, unknown = 0, accepted = 0, closed = 0, stripped_ok = 0;
  std::set<std::string> closed_mn;
  char d[64];
  for (int p = lo; p <= hi; p += step)
  {
    snprintf(d, sizeof(d), "@%d\n", p);
    out += d;
    if (write(fd, out.data(), out.size()) < 0) { _exit(3); }
    out.clear();
    alarm(60);
    if (extonly)
    {
      // structured tails only matter where the instruction reaches into the second half word
      fill(mem, addr, p, 0, false, 0);
      std::string t0;
      if (nv_disasm(cpu, &mem, addr, t0) <= 2) { continue; }
    }
    std::vector<int> tl;
    for (int tail = 3 - tails; tail < 3 + stails; tail++) { tl.push_back(tail); }
    if (deep)
    {
      // does byte 2 / byte 3 select the instruction (prefix opcodes, post bytes)?  If the rendering's shape changes
      // with it, every value of that byte is explored for this leading pattern.
      static const int probes[] = { 0x00, 0x5a, 0xa5, 0xff, 0x3c, 0xc6, 0x81, 0x7e };
      for (int k = 2; k <= 3; k++)
      {
        std::set<std::string> shapes;
        for (size_t pi = 0; pi < sizeof(probes) / sizeof(probes[0]); pi++)
        {
          fill(mem, addr, p, 1000 + (k - 2) * 256 + probes[pi], false, 0);
          std::string tt;
          int nn = nv_disasm(cpu, &mem, addr, tt);
          shapes.insert(itos(nn) + ":" + shape_of_text(tt));
        }
        if (shapes.size() < 2) { continue; }
        for (int v = 0; v < 256; v++) { tl.push_back(1000 + (k - 2) * 256 + v); }
        deep_patterns++;
      }
    }
    for (size_t ti = 0; ti < tl.size(); ti++)
    {
      int tail = tl[ti];
      fill(mem, addr, p, tail, false, 0);
      std::string t;
      int n = nv_disasm(cpu, &mem, addr, t);
      evals++;
      if (n <= 0 || t.empty() || t.find("???") != std::string::npos || t.find("<<UNTERMINATED>>") != std::string::npos ||
          t.find('\n') != std::string::npos || t.find('\t') != std::string::npos)
      {
        unknown++;
        continue;
      }
      if (emit == 2)
      {
        // listing mode: one accepted rendering per (mnemonic, operand shape); nothing else is checked
        if (!emitted.insert(reg_abstract(shape_of_text(t))).second) { continue; }
        std::string bb;
        std::string st = t;
        bool okk = asm_one(cpu, addr, st, bb);
        if (!okk) { st = strip_annotation(t); okk = (st != t) && asm_one(cpu, addr, st, bb); }
        if (okk) { accepted++; out += std::string("text\t") + st + "\n"; }
        continue;
      }
      std::string b2;
      std::string used = t;
      const char *mode = "plain";
      bool ok = asm_one(cpu, addr, t, b2);
      if (!ok)
      {
        std::string st = strip_annotation(t);
        if (st != t && asm_one(cpu, addr, st, b2)) { ok = true; used = st; mode = "stripped"; stripped_ok++; }
      }
      if (!ok) { continue; }
      accepted++;
      if (emit == 1 && emitted.insert(shape_of_text(used)).second) { out += std::string("text\t") + used + "\n"; }
      // second decode: the re-assembled bytes followed by the original tail
      for (size_t i = 0; i < b2.size() && i < 20; i++) { mem.write8(addr + i, (uint8_t)b2[i]); }
      std::string t2;
      int n2 = nv_disasm(cpu, &mem, addr, t2);
      std::string t2c = (std::string(mode) == "stripped") ? strip_annotation(t2) : t2;
      if (t2c == used)
      {
        closed++;
        size_t sp = used.find_first_of(" \t");
        closed_mn.insert(used.substr(0, sp == std::string::npos ? used.size() : sp));
      }
      else
      {
        out += std::string("c07_mismatch\t") + itos(p) + "\t" + itos(tail) + "\t" + mode + "\t" + used + "\t" + t2c + "\n";
      }
      // C01 (source c): walk the decoder over exactly the emitted bytes
      {
        Memory m2;
        m2.endian = cpu->endian;
        for (size_t i = 0; i < b2.size(); i++) { m2.write8(addr + i, (uint8_t)b2[i]); }
        size_t cur = 0;
        int guard = 0;
        std::string first_text;
        int first_len = 0;
        while (cur < b2.size() && guard++ < 64)
        {
          std::string tt;
          int nn = nv_disasm(cpu, &m2, addr + cur, tt);
          if (guard == 1) { first_text = tt; first_len = nn; }
          if (nn <= 0) { break; }
          cur += nn;
        }
        if (cur != b2.size())
        {
          out += std::string("c01_walk\t") + itos(p) + "\t" + itos(tail) + "\t" + used + "\temitted=" + itos(b2.size()) +
                 " consumed=" + itos(cur) + "\n";
        }
        else if (first_len == (int)b2.size() && first_text.find("???") == std::string::npos)
        {
          std::string b3;
          std::string ft = first_text;
          bool ok3 = asm_one(cpu, addr, ft, b3);
          if (!ok3) { ft = strip_annotation(first_text); ok3 = (ft != first_text) && asm_one(cpu, addr, ft, b3); }
          if (ok3 && b3 != b2)
          {
            std::string h2, h3;
            char hx[4];
            for (size_t i = 0; i < b2.size(); i++) { snprintf(hx, sizeof(hx), "%02x", (uint8_t)b2[i]); h2 += hx; }
            for (size_t i = 0; i < b3.size(); i++) { snprintf(hx, sizeof(hx), "%02x", (uint8_t)b3[i]); h3 += hx; }
            out += std::string("c01_refix\t") + itos(p) + "\t" + itos(tail) + "\t" + used + " -> " + ft + "\t" + h2 + " vs " + h3 + "\n";
          }
        }
      }
    }
  }
  char e[200];
  out += "#closed";
  for (std::set<std::string>::iterator it = closed_mn.begin(); it != closed_mn.end(); ++it) { out += "\t" + *it; }
  out += "\n";
  snprintf(e, sizeof(e), "#stats\t%ld\t%ld\t%ld\t%ld\t%ld\n#done\n", evals, unknown, accepted, closed, stripped_ok);
  out += e;
  if (write(fd, out.data(), out.size()) < 0) { _exit(3); }
  _exit(0);
}

static void do_c07scan(const Frame &q, Frame &a)
{
  const NvCpu *cpu = nv_cpu_by_name(get(q, "cpu").c_str());
  if (cpu == NULL || cpu->disasm == NULL) { a["error"] = "unknown cpu"; return; }
  int lo = atoi(get(q, "lo", "0").c_str());
  int hi = atoi(get(q, "hi", "65535").c_str());
  int step = atoi(get(q, "step", "1").c_str());
  int tails = atoi(get(q, "tails", "1").c_str());
  int stails = atoi(get(q, "stails", "0").c_str());
  uint32_t addr = strtoul(get(q, "addr", "256").c_str(), NULL, 0);
  int emit = atoi(get(q, "emit", "0").c_str());
  int deep = atoi(get(q, "deep", "0").c_str());
  int extonly = atoi(get(q, "extonly", "0").c_str());
  std::string texts;
  std::string anomalies;
  std::set<std::string> closed_all;
  long st[5] = { 0, 0, 0, 0, 0 };
  int cur = lo;
  int forks = 0;
  while (cur <= hi && forks < 70000)
  {
    int fds[2];
    if (pipe(fds) != 0) { a["error"] = "pipe"; return; }
    fflush(NULL);
    pid_t pid = fork();
    forks++;
    if (pid == 0)
    {
      close(fds[0]);
      c07scan_child(cpu, cur, hi, step, tails, stails, addr, fds[1], emit, deep, extonly);
    }
    close(fds[1]);
    std::string text;
    char buf[65536];
    while (true)
    {
      ssize_t k = read(fds[0], buf, sizeof(buf));
      if (k <= 0) { break; }
      text.append(buf, k);
    }
    close(fds[0]);
    int status = 0;
    waitpid(pid, &status, 0);
    int last = cur - step;
    bool done = false;
    size_t pos = 0;
    while (pos < text.size())
    {
      size_t nl = text.find('\n', pos);
      if (nl == std::string::npos) { break; }
      std::string line = text.substr(pos, nl - pos);
      pos = nl + 1;
      if (line.empty()) { continue; }
      if (line[0] == '@') { last = atoi(line.c_str() + 1); continue; }
      if (line == "#done") { done = true; continue; }
      if (line.compare(0, 5, "text\t") == 0) { texts += line.substr(5) + "\n"; continue; }
      if (line.compare(0, 7, "#closed") == 0)
      {
        size_t q0 = 7;
        while (q0 < line.size())
        {
          size_t q1 = line.find('\t', q0 + 1);
          if (q1 == std::string::npos) { q1 = line.size(); }
          if (q1 > q0 + 1) { closed_all.insert(line.substr(q0 + 1, q1 - q0 - 1)); }
          q0 = q1;
        }
        continue;
      }
      if (line.compare(0, 6, "#stats") == 0)
      {
        long v[5];
        if (sscanf(line.c_str() + 7, "%ld\t%ld\t%ld\t%ld\t%ld", &v[0], &v[1], &v[2], &v[3], &v[4]) == 5)
        {
          for (int i = 0; i < 5; i++) { st[i] += v[i]; }
        }
        continue;
      }
      anomalies += line + "\n";
    }
    if (done) { break; }
    char d[200];
    const char *kind = (WIFSIGNALED(status) && WTERMSIG(status) == SIGALRM) ? "hang" : "crash";
    snprintf(d, sizeof(d), "%s\t%d\t0\tchild status %d\n", kind, last, WIFEXITED(status) ? WEXITSTATUS(status) : -WTERMSIG(status));
    anomalies += d;
    cur = last + step;
  }
  a["anomalies"] = anomalies;
  a["texts"] = texts;
  a["evals"] = itos(st[0]);
  a["unknown"] = itos(st[1]);
  a["accepted"] = itos(st[2]);
  a["closed"] = itos(st[3]);
  a["stripped"] = itos(st[4]);
  std::string cm;
  for (std::set<std::string>::iterator it = closed_all.begin(); it != closed_all.end(); ++it) { cm += *it + "\n"; }
  a["closed_mnemonics"] = cm;
}

// ------------------------------------------------------------- range (forked)
static void do_range(const Frame &q, Frame &a)
{
  const NvCpu *cpu = nv_cpu_by_name(get(q, "cpu").c_str());
  if (cpu == NULL) { a["error"] = "unknown cpu"; return; }
  uint32_t addr = strtoul(get(q, "addr", "0").c_str(), NULL, 0);
  uint32_t start = strtoul(get(q, "start", "0").c_str(), NULL, 0);
  uint32_t end = strtoul(get(q, "end", "0").c_str(), NULL, 0);
  int timeout_s = atoi(get(q, "timeout", "5").c_str());
  std::string bytes = get(q, "bytes");
  int fds[2];
  if (pipe(fds) != 0) { a["error"] = "pipe"; return; }
  fflush(NULL);
  pid_t pid = fork();
  if (pid == 0)
  {
    close(fds[0]);
    dup2(fds[1], 1);
    alarm(timeout_s + 2);
    Memory *mem = new Memory();
    mem->endian = cpu->endian;
    for (size_t i = 0; i < bytes.size(); i++) { mem->write8(addr + i, (uint8_t)bytes[i]); }
    setvbuf(stdout, NULL, _IOFBF, 1 << 16);
    cpu_list[cpu->index].disasm_range(mem, cpu->flags, start, end);
    fflush(stdout);
    _exit(0);
  }
  close(fds[1]);
  std::string text;
  char buf[4096];
  time_t t0 = time(NULL);
  bool timed_out = false;
  // non-blocking-ish read loop with a deadline
  while (true)
  {
    fd_set rf;
    FD_ZERO(&rf);
    FD_SET(fds[0], &rf);
    struct timeval tv = { 1, 0 };
    int r = select(fds[0] + 1, &rf, NULL, NULL, &tv);
    if (r > 0)
    {
      ssize_t k = read(fds[0], buf, sizeof(buf));
      if (k <= 0) { break; }
      if (text.size() < (1 << 20)) { text.append(buf, k); }
    }
    if (time(NULL) - t0 > timeout_s || text.size() >= (1 << 20))
    {
      timed_out = (time(NULL) - t0 > timeout_s);
      kill(pid, SIGKILL);
      break;
    }
  }
  close(fds[0]);
  int status = 0;
  waitpid(pid, &status, 0);
  a["text"] = text;
  a["timeout"] = timed_out ? "1" : "0";
  a["overflow"] = text.size() >= (1 << 20) ? "1" : "0";
  a["status"] = itos(WIFEXITED(status) ? WEXITSTATUS(status) : -WTERMSIG(status));
}

void do_simbatch(const Frame &q, Frame &a);   // nv_sim.cpp

static void do_cpus(Frame &a)
{
  std::string s;
  for (int i = 0; i < nv_cpu_count(); i++)
  {
    const NvCpu *c = nv_cpu(i);
    s += std::string(c->name) + "\t" + itos(c->unit) + "\t" + itos(c->align) + "\t" +
         itos(c->endian) + "\t" + (cpu_list[c->index].simulate_init ? "1" : "0") + "\t" +
         itos(cpu_list[c->index].srec_size) + "\t" + itos(cpu_list[c->index].type) + "\n";
  }
  a["cpus"] = s;
}

int main(int argc, char *argv[])
{
  out_fd = dup(1);
  // anything printed to fd 1 outside a capture goes to stderr's file
  dup2(2, 1);
  if (argc > 1) { if (chdir(argv[1]) != 0) { return 8; } }

  Frame q, a;
  while (read_frame(q))
  {
    a.clear();
    std::string cmd = get(q, "cmd");
    if (cmd == "asm") { do_asm(q, a); }
    else if (cmd == "dis") { do_dis(q, a); }
    else if (cmd == "mnemonics") { do_mnemonics(q, a); }
    else if (cmd == "cpus") { do_cpus(a); }
    else if (cmd == "c08scan") { do_c08scan(q, a); }
    else if (cmd == "range") { do_range(q, a); }
    else if (cmd == "c07scan") { do_c07scan(q, a); }
    else if (cmd == "simbatch") { do_simbatch(q, a); }
    else if (cmd == "ping") { a["pong"] = "1"; }
    else { a["error"] = "unknown cmd"; }
    write_frame(a);
  }
  return 0;
}
