// nvserve: in-process assembly / disassembly service for the Python
// (Hypothesis) properties.  Binary frames on stdin / (dup of) stdout:
//   frame  := u32 nfields { u32 klen, key, u32 vlen, value }*
// All integers little endian.  One request -> one reply.
#include <stdio.h>
#include <stdlib.h>
#include <string.h>
#include <unistd.h>
#include <string>
#include <map>

#include "nv_api.h"
#include "fileio/file.h"

typedef std::map<std::string, std::string> Frame;

static int out_fd = -1;

static bool read_all(int fd, void *p, size_t n)
{
  char *c = (char *)p;
  while (n > 0)
  {
    ssize_t k = read(fd, c, n);
    if (k <= 0) { return false; }
    c += k;
    n -= k;
  }
  return true;
}

static bool read_frame(Frame &f)
{
  uint32_t n;
  f.clear();
  if (!read_all(0, &n, 4)) { return false; }
  for (uint32_t i = 0; i < n; i++)
  {
    uint32_t kl, vl;
    if (!read_all(0, &kl, 4)) { return false; }
    std::string k(kl, 0);
    if (kl && !read_all(0, &k[0], kl)) { return false; }
    if (!read_all(0, &vl, 4)) { return false; }
    std::string v(vl, 0);
    if (vl && !read_all(0, &v[0], vl)) { return false; }
    f[k] = v;
  }
  return true;
}

static void write_frame(const Frame &f)
{
  std::string b;
  uint32_t n = f.size();
  b.append((char *)&n, 4);
  for (Frame::const_iterator it = f.begin(); it != f.end(); ++it)
  {
    uint32_t kl = it->first.size(), vl = it->second.size();
    b.append((char *)&kl, 4);
    b.append(it->first);
    b.append((char *)&vl, 4);
    b.append(it->second);
  }
  size_t off = 0;
  while (off < b.size())
  {
    ssize_t k = write(out_fd, b.data() + off, b.size() - off);
    if (k <= 0) { _exit(9); }
    off += k;
  }
}

static std::string itos(long long v)
{
  char t[32];
  snprintf(t, sizeof(t), "%lld", v);
  return t;
}

static std::string get(const Frame &f, const char *k, const char *def = "")
{
  Frame::const_iterator it = f.find(k);
  return it == f.end() ? std::string(def) : it->second;
}

static std::string syms_text(const std::vector<NvSym> &v)
{
  std::string s;
  for (size_t i = 0; i < v.size(); i++)
  {
    s += v[i].name + "\t" + itos(v[i].address) + "\t" + itos(v[i].scope) + "\t" +
         (v[i].exported ? "1" : "0") + "\n";
  }
  return s;
}

static void do_asm(const Frame &q, Frame &a)
{
  NvOpts o;
  std::string flags = get(q, "flags");
  o.optimize = flags.find('O') != std::string::npos;
  o.list = flags.find('L') != std::string::npos;
  o.symdebug = flags.find('S') != std::string::npos;
  o.pass1_only = flags.find('1') != std::string::npos;
  o.raw_util_style = flags.find('U') != std::string::npos;
  o.dump_symbols = flags.find('d') != std::string::npos;
  o.dump_macros = flags.find('m') != std::string::npos;
  o.quiet = flags.find('v') == std::string::npos;
  o.cpu = get(q, "cpu");
  o.org = atol(get(q, "org", "-1").c_str());
  o.file_type = atoi(get(q, "type", "-1").c_str());
  o.outfile = get(q, "outfile");
  std::string inc = get(q, "incpath");
  if (!inc.empty()) { o.include_paths.push_back(inc); }

  if (flags.find('F') != std::string::npos)
  {
    // file based source (cwd is the worker's scratch directory)
    o.srcfile = "input.asm";
    FILE *f = fopen("input.asm", "wb");
    if (f != NULL)
    {
      std::string s = get(q, "src");
      fwrite(s.data(), 1, s.size(), f);
      fclose(f);
    }
  }

  NvResult r;
  nv_assemble(get(q, "src"), o, r);

  a["phase"] = itos(r.phase);
  a["exit_code"] = itos(r.exit_code);
  a["exit_called"] = itos(r.exit_called ? 1 : 0);
  a["out"] = r.out;
  a["list"] = r.listing;
  a["sym1"] = syms_text(r.sym1);
  a["sym2"] = syms_text(r.sym2);
  a["low"] = itos(r.low);
  a["high"] = itos(r.high);
  a["endian"] = itos(r.endian);
  a["bpa"] = itos(r.bpa);
  a["cpu"] = itos(r.cpu_index);
  a["icount"] = itos(r.instruction_count);
  a["ccount"] = itos(r.code_count);
  a["dcount"] = itos(r.data_count);

  // image as runs: u32 start, u32 len, data[len], kind[len]
  std::string img;
  std::map<uint32_t, NvByte>::const_iterator it = r.image.begin();
  while (it != r.image.end())
  {
    uint32_t start = it->first;
    std::string d, k;
    uint32_t next = start;
    while (it != r.image.end() && it->first == next)
    {
      d.push_back((char)it->second.data);
      k.push_back((char)it->second.kind);
      ++it;
      ++next;
      if (next == 0) { break; }
    }
    uint32_t len = d.size();
    img.append((char *)&start, 4);
    img.append((char *)&len, 4);
    img += d;
    img += k;
  }
  a["img"] = img;
}

static void do_dis(const Frame &q, Frame &a)
{
  const NvCpu *cpu = nv_cpu_by_name(get(q, "cpu").c_str());
  if (cpu == NULL || cpu->disasm == NULL) { a["error"] = "unknown cpu"; return; }
  uint32_t addr = strtoul(get(q, "addr", "0").c_str(), NULL, 0);
  std::string bytes = get(q, "bytes");
  int count = atoi(get(q, "count", "1").c_str());
  Memory mem;
  mem.endian = cpu->endian;
  for (size_t i = 0; i < bytes.size(); i++) { mem.write8(addr + i, (uint8_t)bytes[i]); }
  std::string out;
  uint32_t cur = addr;
  for (int i = 0; i < count; i++)
  {
    if ((uint64_t)cur - addr >= bytes.size()) { break; }
    std::string text;
    int n = nv_disasm(cpu, &mem, cur, text);
    out += itos(cur) + "\t" + itos(n) + "\t" + text + "\n";
    if (n <= 0) { break; }
    cur += n;
  }
  a["dis"] = out;
}

static void do_cpus(Frame &a)
{
  std::string s;
  for (int i = 0; i < nv_cpu_count(); i++)
  {
    const NvCpu *c = nv_cpu(i);
    s += std::string(c->name) + "\t" + itos(c->unit) + "\t" + itos(c->align) + "\t" +
         itos(c->endian) + "\t" + (cpu_list[c->index].simulate_init ? "1" : "0") + "\t" +
         itos(cpu_list[c->index].srec_size) + "\t" + itos(cpu_list[c->index].type) + "\n";
  }
  a["cpus"] = s;
}

int main(int argc, char *argv[])
{
  out_fd = dup(1);
  // anything printed to fd 1 outside a capture goes to stderr's file
  dup2(2, 1);
  if (argc > 1) { if (chdir(argv[1]) != 0) { return 8; } }

  Frame q, a;
  while (read_frame(q))
  {
    a.clear();
    std::string cmd = get(q, "cmd");
    if (cmd == "asm") { do_asm(q, a); }
    else if (cmd == "dis") { do_dis(q, a); }
    else if (cmd == "cpus") { do_cpus(a); }
    else if (cmd == "ping") { a["pong"] = "1"; }
    else { a["error"] = "unknown cmd"; }
    write_frame(a);
  }
  return 0;
}
