// fuzz_util_file: libFuzzer target for C17 (object files).  Input: format byte, cpu byte, flag byte, file bytes.
// The bytes are written to in.<ext> in a private scratch directory and loaded with file_read() - forced type or
// auto-detection - exactly as main/naken_util.cpp does; on success the loaded range is disassembled with the
// selected (or detected) CPU in windows at both ends of the range, printed with print/print16/print32 and the
// symbol table is dumped.  Oracle: no sanitizer report / signal / time-out; exit() must carry status 1.
#include "fuzz_out.h"
#include <stdlib.h>
#include <string.h>
#include <stdint.h>
#include <unistd.h>
#include <sys/stat.h>
#include <string>

#include "nv_api.h"
#include "core/UtilContext.h"
#include "core/cpu_list.h"
#include "fileio/file.h"

static char scratch[256];
static long n_exec, n_loaded, n_rejected, n_exit, n_disasm;
static long loaded_by_type[10];
static const char *stats_path;

static void dump_stats()
{
  if (stats_path == NULL) { return; }
  FILE *f = fopen(stats_path, "w");
  if (f == NULL) { return; }
  fprintf(f, "exec %ld\nloaded %ld\nrejected_by_loader %ld\nexit_called %ld\ndisassembled %ld\noutput_cutoffs %ld\n",
          n_exec, n_loaded, n_rejected, n_exit, n_disasm, fz_out_cutoffs);
  static const char *names[] = { "hex", "bin", "elf", "srec", "wdc", "amiga", "ti_txt", "macho", "uf2", "?" };
  for (int i = 0; i < 9; i++) { fprintf(f, "loaded_%s %ld\n", names[i], loaded_by_type[i]); }
  fclose(f);
}

extern "C" int LLVMFuzzerInitialize(int *argc, char ***argv)
{
  const char *base = getenv("NV_FUZZ_TMP");
  if (base == NULL) { base = "/dev/shm"; }
  snprintf(scratch, sizeof(scratch), "%s/nvfuzz_uf.%d", base, (int)getpid());
  mkdir(scratch, 0700);
  if (chdir(scratch) != 0) { perror("chdir"); _exit(7); }
  stats_path = getenv("NV_FUZZ_STATS");
  atexit(dump_stats);
  return 0;
}

static void window(UtilContext *uc, uint32_t start, uint32_t end)
{
  char range[64];
  uc->disasm(start, end);
  snprintf(range, sizeof(range), "0x%x-0x%x", start, end);
  uc->print8(range);
  uc->print16(range);
  uc->print32(range);
  n_disasm++;
}

static void run_one(const uint8_t *data, size_t size)
{
  static const char *exts[] = { "hex", "bin", "elf", "srec", "wdc", "amiga", "txt", "macho", "uf2", "dat" };
  static const int types[] = { FILE_TYPE_HEX, FILE_TYPE_BIN, FILE_TYPE_ELF, FILE_TYPE_SREC, FILE_TYPE_WDC, FILE_TYPE_AMIGA,
                               FILE_TYPE_TI_TXT, FILE_TYPE_MACHO, FILE_TYPE_UF2 };
  int fmt = data[0] % 20;              // 0..8 forced type, 10..19 auto detection with extension fmt-10
  int cpu = data[1];
  int flags = data[2];
  char name[64];
  snprintf(name, sizeof(name), "in.%s", exts[fmt < 10 ? (fmt % 9) : fmt - 10]);
  FILE *f = fopen(name, "wb");
  if (f == NULL) { return; }
  fwrite(data + 3, 1, size - 3, f);
  fclose(f);

  UtilContext *uc = new UtilContext();
  int file_type = fmt < 9 ? types[fmt] : FILE_TYPE_AUTO;
  const char *cpu_name = NULL;
  int count = 0;
  while (cpu_list[count].name != NULL) { count++; }
  if (cpu != 255) { cpu_name = cpu_list[cpu % count].name; }
  uint32_t start_address = (flags & 1) ? 0xfffffff0 : ((flags & 2) ? 0x8000 : 0);
  int status = -1;
  int ret = -99;
  // A loader may print a line per record/section/symbol: bounded by the file size or by a 16 bit count in a
  // header (e_shnum = 65535 sections of a few dozen characters each).  More than that is a loop.
  fz_out_strict = 1;
  fz_out_budget = (24 << 20) + 256L * (long)size;     // 65535 sections x (127 character name + text) is about 11 MB
  NV_CATCH_EXIT({ ret = file_read(name, uc, &file_type, cpu_name, start_address); }, status);
  fz_out_strict = 0;
  fz_out_budget = 4 << 20;
  fz_out_count = 0;
  if (status != -1)
  {
    n_exit++;
    if (status != 1)
    {
      fprintf(stderr, "C17-ORACLE: exit(%d) while loading a file\n", status);
      dump_stats();
      __builtin_trap();
    }
  }
  else if (ret == 0)
  {
    n_loaded++;
    if (file_type >= 0 && file_type < 9) { loaded_by_type[file_type]++; }
    uint32_t low = uc->memory.low_address, high = uc->memory.high_address;
    if (low <= high)
    {
      NV_CATCH_EXIT({
        uint32_t e1 = (uint64_t)low + 2047 < high ? low + 2047 : high;
        window(uc, low, e1);
        if ((uint64_t)high > (uint64_t)low + 4096) { window(uc, high - 2047, high); }
        if (flags & 4) { uc->symbols.print(stdout); }
        if ((flags & 8) && (uint64_t)high - low < (1 << 20)) { uc->disasm("");  }   // whole image, as `disasm` without argument
      }, status);
    }
  }
  else
  {
    n_rejected++;
  }
  unlink(name);
  delete uc;
}

extern "C" int LLVMFuzzerTestOneInput(const uint8_t *data, size_t size)
{
  if (size < 4) { return 0; }
  n_exec++;
  FILE *out = fz_out_open();
  FILE *saved = stdout;
  stdout = out;
  if (setjmp(fz_out_jmp) == 0)
  {
    fz_out_armed = 1;
    run_one(data, size);
    fz_out_armed = 0;
    fclose(out);
  }
  nv_exit_armed = 0;
  stdout = saved;
  if ((n_exec & 0x3ff) == 0) { dump_stats(); }
  return 0;
}

// ------------------------------------------------------------------ structure aware mutator
extern "C" size_t LLVMFuzzerMutate(uint8_t *Data, size_t Size, size_t MaxSize);
static uint32_t rs;
static uint32_t rnd() { rs = rs * 1664525u + 1013904223u; return rs >> 8; }

extern "C" size_t LLVMFuzzerCustomMutator(uint8_t *data, size_t size, size_t max_size, unsigned int seed)
{
  rs = seed;
  if (size < 8 || (rnd() % 3) != 0) { return LLVMFuzzerMutate(data, size, max_size); }
  size_t body = size - 3;
  uint8_t *b = data + 3;
  switch (rnd() % 6)
  {
    case 0: data[0] = rnd() % 20; break;                 // other loader / detection path
    case 1: data[1] = rnd() & 0xff; break;               // other cpu
    case 2: data[2] = rnd() & 0xff; break;
    default:
    {
      // header field at an aligned offset set to an extreme
      static const uint32_t ext[] = { 0, 1, 0xffffffff, 0x7fffffff, 0x80000000, 0xffff, 0x10000, 0xfffffff0, 0xff, 0x100 };
      uint32_t v = ext[rnd() % 10];
      if ((rnd() & 3) == 0) { v = body + (rnd() % 5) - 2; }
      size_t width = (rnd() & 1) ? 4 : 2;
      size_t limit = body < 256 ? body : ((rnd() & 1) ? 256 : body);
      if (limit < width) { break; }
      size_t off = (rnd() % (limit - width + 1)) & ~(width - 1);
      bool be = (rnd() & 1) != 0;
      for (size_t i = 0; i < width; i++)
      {
        b[off + i] = be ? (v >> (8 * (width - 1 - i))) : (v >> (8 * i));
      }
      break;
    }
  }
  return size;
}
