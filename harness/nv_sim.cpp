// nv_sim: simulator single-step batches for nvserve (C14, C15).
//
// request fields: cpu, cases (binary), regs (comma separated names read back with get_reg), space (size of the
// simulated address space in bytes, 0 = unlimited), show ("1": run() with show=true like the interactive
// `step` command), steps (how many single steps per case), timeout (seconds per case)
// case record (little endian):
//   u32 fill_kind (0 none, 1 constant byte = key&0xff, 2 keyed pseudo random), u32 key, u32 fill_lo, u32 fill_hi
//   u16 nmem { u32 addr, u16 len, bytes }
//   u16 nreg { u8 namelen, name, u32 value }      (set_reg by name, in order)
//   u32 pc  (0xffffffff: leave)
// reply field `results`: per case
//   u8 status (0 returned, 1 crashed, 2 hung, 3 called exit), i32 ret (or exit status), u32 nregs { u32 value },
//   u32 ndiff { u32 addr, u8 old, u8 new } (at most 256, ndiff is the true count), u32 outside_pages,
//   u32 first_outside, u32 textlen, dump_registers() text
// The batch runs in forked children (one fork per crash/hang): the child streams one result per case.
#include <stdio.h>
#include <stdlib.h>
#include <string.h>
#include <unistd.h>
#include <signal.h>
#include <sys/wait.h>
#include <string>
#include <vector>
#include <map>

#include "nv_api.h"
#include "core/cpu_list.h"
#include "core/Memory.h"
#include "simulate/Simulate.h"

typedef std::map<std::string, std::string> Frame;

static std::string fget(const Frame &f, const char *k, const char *def = "")
{
  Frame::const_iterator it = f.find(k);
  return it == f.end() ? std::string(def) : it->second;
}

struct Rd
{
  const std::string &s;
  size_t pos;
  bool bad;
  Rd(const std::string &s) : s(s), pos(0), bad(false) {}
  uint32_t u(int n)
  {
    if (pos + n > s.size()) { bad = true; return 0; }
    uint32_t v = 0;
    for (int i = 0; i < n; i++) { v |= ((uint32_t)(uint8_t)s[pos + i]) << (8 * i); }
    pos += n;
    return v;
  }
  std::string bytes(size_t n)
  {
    if (pos + n > s.size()) { bad = true; return ""; }
    std::string r = s.substr(pos, n);
    pos += n;
    return r;
  }
};

static void put32(std::string &o, uint32_t v) { o.append((const char *)&v, 4); }

static uint32_t mix(uint32_t x)
{
  x ^= x >> 16; x *= 0x7feb352dU; x ^= x >> 15; x *= 0x846ca68bU; x ^= x >> 16;
  return x;
}

struct Case
{
  uint32_t fill_kind, key, fill_lo, fill_hi, pc;
  std::vector<std::pair<uint32_t, std::string> > mem;
  std::vector<std::pair<std::string, uint32_t> > regs;
};

static bool parse_cases(const std::string &blob, std::vector<Case> &out)
{
  Rd r(blob);
  while (r.pos < blob.size())
  {
    Case c;
    c.fill_kind = r.u(4); c.key = r.u(4); c.fill_lo = r.u(4); c.fill_hi = r.u(4);
    int nmem = r.u(2);
    for (int i = 0; i < nmem && !r.bad; i++)
    {
      uint32_t a = r.u(4);
      int len = r.u(2);
      c.mem.push_back(std::make_pair(a, r.bytes(len)));
    }
    int nreg = r.u(2);
    for (int i = 0; i < nreg && !r.bad; i++)
    {
      int nl = r.u(1);
      std::string name = r.bytes(nl);
      c.regs.push_back(std::make_pair(name, r.u(4)));
    }
    c.pc = r.u(4);
    if (r.bad) { return false; }
    out.push_back(c);
  }
  return true;
}

static void write_all(int fd, const std::string &b)
{
  size_t off = 0;
  while (off < b.size())
  {
    ssize_t k = write(fd, b.data() + off, b.size() - off);
    if (k <= 0) { _exit(9); }
    off += k;
  }
}

static void run_case(const NvCpu *cpu, const Case &c, const std::vector<std::string> &regnames, uint32_t space,
                     bool show, int steps, long break_io, std::string &o)
{
  Memory *mem = new Memory();
  mem->endian = cpu->endian;
  if (c.fill_kind == 1)
  {
    for (uint32_t a = c.fill_lo; a < c.fill_hi; a++) { mem->write8(a, c.key & 0xff); }
  }
  else if (c.fill_kind == 2)
  {
    for (uint32_t a = c.fill_lo; a < c.fill_hi; a++) { mem->write8(a, mix(a * 2654435761U ^ c.key) & 0xff); }
  }
  for (size_t i = 0; i < c.mem.size(); i++)
  {
    for (size_t k = 0; k < c.mem[i].second.size(); k++) { mem->write8(c.mem[i].first + k, (uint8_t)c.mem[i].second[k]); }
  }
  // what the disassembler says about the instruction at pc (C15: the simulators that advance by the disassembler's
  // length must land on the next disassembled instruction)
  std::string dis_note;
  if (steps == 1 && c.pc != 0xffffffff && cpu->disasm != NULL && cpu->unit == 1)
  {
    std::string dt;
    int dn = nv_disasm(cpu, mem, c.pc, dt);
    char hd[48];
    snprintf(hd, sizeof(hd), "\n#DIS %d ", dn);
    dis_note = std::string(hd) + dt + "\n";
  }
  // snapshot
  std::map<uint32_t, std::string> before;
  for (MemoryPage *p = mem->pages; p != NULL; p = p->next)
  {
    before[p->address] = std::string((const char *)p->bin, PAGE_SIZE);
  }
  volatile int ret = 0;
  volatile int exit_status = -1;
  std::string text;
  nv_capture_begin();
  Simulate * volatile sim = NULL;
  NV_CATCH_EXIT({
    sim = cpu_list[cpu->index].simulate_init(mem);
    sim->set_show(show);
    if (break_io >= 0) { sim->set_break_io((int)break_io); }
    for (size_t i = 0; i < c.regs.size(); i++) { sim->set_reg(c.regs[i].first.c_str(), c.regs[i].second); }
    if (c.pc != 0xffffffff) { sim->set_pc(c.pc); }
    sim->enable_step_mode();
    for (int s = 0; s < steps; s++)
    {
      ret = sim->run(-1, 1);
      if (ret != 0) { break; }
    }
  }, exit_status);
  nv_capture_end();
  uint8_t status = exit_status == -1 ? 0 : 3;
  o.push_back((char)status);
  put32(o, (uint32_t)(exit_status == -1 ? ret : exit_status));
  put32(o, regnames.size());
  nv_capture_begin();
  volatile int dummy = -1;
  NV_CATCH_EXIT({
    for (size_t i = 0; i < regnames.size(); i++) { put32(o, sim ? sim->get_reg(regnames[i].c_str()) : 0); }
  }, dummy);
  nv_capture_end();
  // memory diff
  uint32_t ndiff = 0, outside = 0, first_outside = 0;
  std::string diffs;
  for (MemoryPage *p = mem->pages; p != NULL; p = p->next)
  {
    if (space != 0 && p->address >= space)
    {
      if (outside == 0 || p->address < first_outside) { first_outside = p->address; }
      outside++;
    }
    std::map<uint32_t, std::string>::iterator it = before.find(p->address);
    const char *old = it == before.end() ? NULL : it->second.data();
    if (old != NULL && memcmp(old, p->bin, PAGE_SIZE) == 0) { continue; }
    for (uint32_t k = 0; k < PAGE_SIZE; k++)
    {
      uint8_t ov = old ? (uint8_t)old[k] : 0;
      if (ov != p->bin[k])
      {
        if (ndiff < 256) { put32(diffs, p->address + k); diffs.push_back((char)ov); diffs.push_back((char)p->bin[k]); }
        ndiff++;
      }
    }
  }
  put32(o, ndiff);
  o += diffs;
  put32(o, outside);
  put32(o, first_outside);
  nv_capture_begin();
  NV_CATCH_EXIT({ if (sim) { sim->dump_registers(); } }, dummy);
  text = nv_capture_end();
  text += dis_note;
  put32(o, text.size());
  o += text;
  // deliberately no delete of sim/mem before the result is out: destructor problems belong to the next case
  NV_CATCH_EXIT({ Simulate *t = sim; delete t; }, dummy);
  delete mem;
}

void do_simbatch(const Frame &q, Frame &a)
{
  const NvCpu *cpu = nv_cpu_by_name(fget(q, "cpu").c_str());
  if (cpu == NULL || cpu_list[cpu->index].simulate_init == NULL) { a["error"] = "no simulator"; return; }
  std::vector<Case> cases;
  if (!parse_cases(fget(q, "cases"), cases)) { a["error"] = "bad cases blob"; return; }
  std::vector<std::string> regnames;
  {
    std::string r = fget(q, "regs");
    size_t pos = 0;
    while (pos < r.size())
    {
      size_t c = r.find(',', pos);
      if (c == std::string::npos) { c = r.size(); }
      if (c > pos) { regnames.push_back(r.substr(pos, c - pos)); }
      pos = c + 1;
    }
  }
  uint32_t space = strtoul(fget(q, "space", "0").c_str(), NULL, 0);
  bool show = fget(q, "show", "0") == "1";
  int steps = atoi(fget(q, "steps", "1").c_str());
  int timeout = atoi(fget(q, "timeout", "5").c_str());
  long break_io = strtol(fget(q, "break_io", "-1").c_str(), NULL, 0);
  std::string results;
  size_t cur = 0;
  int forks = 0;
  while (cur < cases.size())
  {
    int fds[2];
    if (pipe(fds) != 0) { a["error"] = "pipe"; return; }
    fflush(NULL);
    pid_t pid = fork();
    forks++;
    if (pid == 0)
    {
      close(fds[0]);
      for (size_t i = cur; i < cases.size(); i++)
      {
        alarm(timeout);
        std::string o;
        run_case(cpu, cases[i], regnames, space, show, steps, break_io, o);
        std::string hdr;
        put32(hdr, o.size());
        write_all(fds[1], hdr + o);
      }
      _exit(0);
    }
    close(fds[1]);
    std::string text;
    char buf[65536];
    while (true)
    {
      ssize_t k = read(fds[0], buf, sizeof(buf));
      if (k <= 0) { break; }
      text.append(buf, k);
    }
    close(fds[0]);
    int status = 0;
    waitpid(pid, &status, 0);
    size_t pos = 0;
    while (pos + 4 <= text.size())
    {
      uint32_t len;
      memcpy(&len, text.data() + pos, 4);
      if (pos + 4 + len > text.size()) { break; }
      results.append(text, pos + 4, len);
      pos += 4 + len;
      cur++;
    }
    if (cur < cases.size())
    {
      // the child died while running case `cur`
      bool hang = WIFSIGNALED(status) && WTERMSIG(status) == SIGALRM;
      results.push_back((char)(hang ? 2 : 1));
      put32(results, (uint32_t)(WIFEXITED(status) ? WEXITSTATUS(status) : -WTERMSIG(status)));
      put32(results, 0);   // nregs
      put32(results, 0);   // ndiff
      put32(results, 0);   // outside
      put32(results, 0);   // first outside
      put32(results, 0);   // textlen
      cur++;
    }
  }
  a["results"] = results;
  a["forks"] = std::to_string(forks);
  a["ncases"] = std::to_string(cases.size());
}
