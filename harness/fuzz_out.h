// Output budget for the naken_util fuzz targets: stdout is a cookie stream that counts bytes and aborts the
// current iteration (longjmp) once more than `budget` bytes were printed - work proportional to the *requested*
// output (print 0-0xffffffff) is not a hang.  A loop that prints nothing still runs into libFuzzer's -timeout.
#ifndef NV_FUZZ_OUT_H
#define NV_FUZZ_OUT_H
#define _GNU_SOURCE 1
#include <stdio.h>
#include <setjmp.h>
#include <sys/types.h>

static jmp_buf fz_out_jmp;
static volatile int fz_out_armed = 0;
static long fz_out_count = 0;
static long fz_out_budget = 4 << 20;
static long fz_out_cutoffs = 0;
static int fz_out_strict = 0;      // 1: exceeding the budget is a failure of the code under test (output not requested)

static ssize_t fz_out_write(void *, const char *, size_t n)
{
  fz_out_count += n;
  if (fz_out_armed && fz_out_strict && fz_out_count > fz_out_budget)
  {
    fz_out_armed = 0;
    fprintf(stderr, "C17-ORACLE: more than %ld bytes of output that nothing asked for (endless loop that prints?)\n", fz_out_budget);
    __builtin_trap();
  }
  if (fz_out_armed && fz_out_count > fz_out_budget)
  {
    fz_out_armed = 0;
    fz_out_cutoffs++;
    longjmp(fz_out_jmp, 1);
  }
  return n;
}

static FILE *fz_out_open()
{
  cookie_io_functions_t io = { NULL, fz_out_write, NULL, NULL };
  FILE *f = fopencookie(NULL, "w", io);
  setvbuf(f, NULL, _IOFBF, 1 << 16);
  fz_out_count = 0;
  return f;
}
#endif
