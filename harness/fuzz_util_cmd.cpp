// fuzz_util_cmd: libFuzzer target for C17 (command lines and interactive command sequences).
// Input: cpu byte, mode byte, script text.  main() of naken_util (compiled as naken_util_main) runs in-process
// with argv = { naken_util, -<cpu> [, file] } and stdin = the script: "speed 0" (single-step mode, so run/call
// execute one instruction and return) + the fuzzed lines + "quit".  Lines that set another speed are dropped.
// mode bit 0: a small hex file written by the target is loaded; bit 1: -disasm instead of interactive.
// Oracle: no sanitizer report / signal / time-out (libFuzzer).  Output beyond 4 MB per input ends the
// iteration (requested output, see fuzz_out.h).
#include "fuzz_out.h"
#include <stdlib.h>
#include <string.h>
#include <stdint.h>
#include <unistd.h>
#include <ctype.h>
#include <sys/stat.h>
#include <string>
#include <vector>

#include "nv_api.h"
#include "core/cpu_list.h"

extern int naken_util_main(int argc, char *argv[]);

static char scratch[256];
static long n_exec, n_exit, n_returned, n_commands, n_dropped_speed;
static const char *stats_path;

static void dump_stats()
{
  if (stats_path == NULL) { return; }
  FILE *f = fopen(stats_path, "w");
  if (f == NULL) { return; }
  fprintf(f, "exec %ld\nreturned %ld\nexit_called %ld\ncommands %ld\ndropped_speed_lines %ld\noutput_cutoffs %ld\n",
          n_exec, n_returned, n_exit, n_commands, n_dropped_speed, fz_out_cutoffs);
  fclose(f);
}

extern "C" int LLVMFuzzerInitialize(int *argc, char ***argv)
{
  const char *base = getenv("NV_FUZZ_TMP");
  if (base == NULL) { base = "/dev/shm"; }
  snprintf(scratch, sizeof(scratch), "%s/nvfuzz_uc.%d", base, (int)getpid());
  mkdir(scratch, 0700);
  if (chdir(scratch) != 0) { perror("chdir"); _exit(7); }
  FILE *f = fopen("prog.hex", "w");
  if (f != NULL)
  {
    // 16 bytes at 0x0000 and the msp430 reset vector
    fputs(":10000000354001003640020005560F120F4130413F\n:02FFFE000000\n:00000001FF\n", f);
    fclose(f);
  }
  stats_path = getenv("NV_FUZZ_STATS");
  atexit(dump_stats);
  return 0;
}

static void run_one(const uint8_t *data, size_t size)
{
  int count = 0;
  while (cpu_list[count].name != NULL) { count++; }
  std::string cpu = std::string("-") + cpu_list[data[0] % count].name;
  int mode = data[1];
  std::string script = "speed 0\n";
  std::string text((const char *)data + 2, size - 2);
  size_t pos = 0;
  while (pos <= text.size())
  {
    size_t nl = text.find('\n', pos);
    if (nl == std::string::npos) { nl = text.size(); }
    std::string line = text.substr(pos, nl - pos);
    pos = nl + 1;
    size_t nul = line.find('\0');
    if (nul != std::string::npos) { line.resize(nul); }
    size_t a = line.find_first_not_of(" \t");
    if (a != std::string::npos && strncasecmp(line.c_str() + a, "speed", 5) == 0) { n_dropped_speed++; continue; }
    script += line + "\n";
    n_commands++;
  }
  script += "\nquit\n";
  FILE *in = fmemopen((void *)script.data(), script.size(), "r");
  FILE *saved_in = stdin;
  stdin = in;
  std::vector<char *> argv;
  char a0[] = "naken_util";
  char a_dis[] = "-disasm";
  char a_file[] = "prog.hex";
  argv.push_back(a0);
  argv.push_back((char *)cpu.c_str());
  if (mode & 2) { argv.push_back(a_dis); }
  if (mode & 3) { argv.push_back(a_file); }
  argv.push_back(NULL);
  int status = -1;
  NV_CATCH_EXIT({ naken_util_main((int)argv.size() - 1, argv.data()); }, status);
  if (status == -1) { n_returned++; } else { n_exit++; }
  stdin = saved_in;
  fclose(in);
}

extern "C" int LLVMFuzzerTestOneInput(const uint8_t *data, size_t size)
{
  if (size < 3) { return 0; }
  n_exec++;
  FILE *out = fz_out_open();
  FILE *saved = stdout;
  stdout = out;
  if (setjmp(fz_out_jmp) == 0)
  {
    fz_out_armed = 1;
    run_one(data, size);
    fz_out_armed = 0;
    fclose(out);
  }
  nv_exit_armed = 0;
  stdout = saved;
  if ((n_exec & 0x3ff) == 0) { dump_stats(); }
  return 0;
}
